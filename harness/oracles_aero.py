"""Real-code oracles for the aerodynamic relation properties C04-C09, C19 (two related analyses each)."""
import copy
import numpy as np
from . import core, gen, pipelines, refvlm
from .oracles import oracle, _fail, relerr, Discard
from .core import quiet


def _mirror_mesh(mesh):
    m = mesh[:, ::-1, :].copy(); m[:, :, 1] *= -1.0
    return m


def _full_from_half(mesh):
    return refvlm.full_mesh(mesh, True)


def _sizes(rng, tier):
    sizes = [(2, 2), (2, 3), (3, 3), (2, 4), (3, 2), (4, 3)] if tier == "quick" else [(2, 2), (2, 3), (3, 3), (2, 5), (4, 3), (3, 6), (5, 4), (6, 3)]
    return sizes[int(rng.integers(len(sizes)))]


def _clean_half(rng, nx, ny, right=False, planar=False):
    return gen.rand_mesh(rng, nx, ny, True, right=right, planar=planar, jitter=0.0)


def _flow(rng, **kw):
    f = dict(alpha=float(rng.uniform(-12, 12)), beta=0.0, v=float(rng.uniform(30, 240)), rho=float(rng.uniform(0.3, 1.25)),
             cg=rng.normal(size=3) * 2, omega=np.zeros(3), height_agl=float(rng.uniform(3, 50)),
             Mach_number=float(rng.uniform(0.1, 0.8)), re=float(10 ** rng.uniform(5.5, 7)))
    f.update(kw)
    return f


def _surf(name, mesh, sym, rng, **kw):
    s = pipelines.aero_surface(name, mesh, sym, S_ref_type=str(rng.choice(["wetted", "projected"])),
                               with_viscous=bool(rng.integers(2)), k_lam=float(rng.choice([0.0, 0.05, 0.4, 1.0])),
                               CL0=float(rng.uniform(0, 0.05)), CD0=float(rng.uniform(0, 0.02)))
    s.update(kw)
    return gen.flagify(rng, s)


# ---------------------------------------------------------------------------------------
# C05  tangency + independent reference
# ---------------------------------------------------------------------------------------
@oracle("C05", "independent_biot_savart")
def c05_reference(rng, tier):
    ns = int(rng.choice([1, 1, 2, 3]))
    surfaces = []
    anysym = False
    syms = [bool(rng.integers(2)) for _ in range(ns)]
    anysym = any(syms)
    for k in range(ns):
        nx, ny = _sizes(rng, tier)
        sym = syms[k]
        if not sym and ny % 2 == 0:
            ny += 1
        if sym and ns > 1 and ny < 3:
            ny = 3          # with a single spanwise panel the spanwise order of a half surface cannot be observed
        # when a symmetric (half) surface is present the configuration must be mirror symmetric as a whole:
        # full-span surfaces are then generated without jitter (rand_mesh is mirror symmetric without it);
        # left- and right-half descriptions are mixed freely within one list
        mesh = gen.rand_mesh(rng, nx, ny, sym, right=bool(sym and rng.uniform() < 0.5), jitter=0.0 if anysym else 0.02)
        mesh[:, :, 0] += 5.0 * k; mesh[:, :, 2] += 0.8 * k
        surfaces.append(pipelines.aero_surface("s%d" % k, mesh, sym))
    rotational = bool(rng.uniform() < 0.4)
    flow = _flow(rng, alpha=float(rng.uniform(-15, 15)))
    if anysym:
        flow["omega"] = np.array([0.0, rng.normal() * 0.2, 0.0])
    else:
        flow["beta"] = float(rng.uniform(-15, 15)); flow["omega"] = rng.normal(size=3) * 0.2
    prob = pipelines.run_aero_point(surfaces, flow, rotational=rotational)
    real = pipelines.aero_outputs(prob, surfaces)
    R = refvlm.RefVLM([s["mesh"] for s in surfaces], [s["symmetry"] for s in surfaces], flow["alpha"], flow["beta"], flow["v"],
                      flow["rho"], omega=flow["omega"] if rotational else None, cg=flow["cg"]).solve()
    out = []
    case = dict(shapes=[list(s["mesh"].shape) for s in surfaces], symmetry=[s["symmetry"] for s in surfaces], alpha=flow["alpha"],
                beta=flow["beta"], rotational=rotational)
    off = 0
    cond = np.linalg.cond(np.array(prob.get_val("pt.aero_states.mtx")))
    tol = 1e-9 + 1e-13 * cond
    for k, s in enumerate(surfaces):
        g, f = R.half_results(k)
        nx, ny = s["mesh"].shape[:2]
        n = (nx - 1) * (ny - 1)
        rg = real["circulations"][off:off + n].reshape(nx - 1, ny - 1); off += n
        rf = real[s["name"]]["sec_forces"]
        if relerr(rg, g) > tol:
            out.append(_fail("circulations differ from the independent Biot-Savart solver", rg, g, surface=k, **case))
        if relerr(rf, f) > tol:
            out.append(_fail("sectional forces differ from the independent Biot-Savart solver (rho Gamma V x l)", rf, f, surface=k, **case))
    # tangency with the real circulations, for configurations without symmetric surfaces (direct substitution)
    if not anysym:
        R.gamma = real["circulations"]
        res = []
        for m, pn in enumerate(R.panels):
            coll, fpt, bvec, nrm = R.geometry(*pn)
            vc = R.onset(coll).copy()
            for n_, qn in enumerate(R.panels):
                vc = vc + R.gamma[n_] * R.panel_vel(coll, *qn)
            res.append(vc.dot(nrm))
        if np.max(np.abs(res)) > 1e-9 * flow["v"] * max(1.0, cond * 1e-4):
            out.append(_fail("normal velocity does not vanish at the collocation points", np.max(np.abs(res)), 0.0, **case))
    return out


@oracle("C17", "aero_point_totals")
def c17_aero_point_totals(rng, tier):
    """the aircraft-level functionals of an assembled `AeroPoint` (TotalAeroPerformance): reference area, area-weighted coefficients,
    `L = q S CL`, `D = q S CD`, and `CM` from the moments of the sectional forces about `cg`"""
    surfaces = _aero_config(rng, tier)
    flow = _flow(rng)
    if any(s["symmetry"] for s in surfaces):
        flow["beta"] = 0.0
    user_sref = float(rng.uniform(5, 60)) if rng.uniform() < 0.3 else None
    prob = pipelines.run_aero_point(surfaces, flow, user_sref=user_sref)
    o = pipelines.aero_outputs(prob, surfaces)
    out = []
    case = dict(shapes=[list(s["mesh"].shape) for s in surfaces], symmetry=[bool(s["symmetry"]) for s in surfaces], user_sref=user_sref)
    S = [o[s["name"]]["S_ref"] for s in surfaces]
    Stot = user_sref if user_sref is not None else sum(S)
    if abs(o["S_ref_total"] - Stot) > 1e-12 * Stot:
        out.append(_fail("total reference area is not the sum of the surface areas (or the user's value)", o["S_ref_total"], Stot, **case))
    for key in ("CL", "CD"):
        req = sum(o[s["name"]][key] * Si for s, Si in zip(surfaces, S)) / Stot
        if abs(o[key] - req) > 1e-12 * max(abs(req), 1e-6):
            out.append(_fail("aircraft %s is not the area-weighted sum of the surface coefficients" % key, o[key], req, **case))
    q = 0.5 * flow["rho"] * flow["v"] ** 2
    for key, ck in (("L", "CL"), ("D", "CD")):
        if abs(o[key] - q * Stot * o[ck]) > 1e-10 * max(abs(o[key]), 1.0):
            out.append(_fail("aircraft %s != q S_ref %s" % (key, ck), o[key], q * Stot * o[ck], **case))
    # CM: moment of the sectional forces at the quarter-chord midpoints of the bound vortices about cg, normalised by q S MAC(first surface)
    M = np.zeros(3)
    for s in surfaces:
        n = s["name"]
        b = np.array(prob.get_val("pt.%s.b_pts" % n)); F = o[n]["sec_forces"]
        pts = 0.5 * (b[:, 1:] + b[:, :-1])
        m = np.cross(pts - flow["cg"], F).reshape(-1, 3).sum(axis=0)
        if s["symmetry"]:
            m = np.array([0.0, 2 * m[1], 0.0])
        M += m
    s0 = surfaces[0]; n0 = s0["name"]
    ch = np.array(prob.get_val("pt.%s.chords" % n0)); w = np.array(prob.get_val("pt.%s.widths" % n0))
    pc = 0.5 * (ch[1:] + ch[:-1])
    mac = (pc ** 2 * w).sum() / S[0] * (2 if s0["symmetry"] else 1)
    req = M / (q * Stot * mac)
    if np.max(np.abs(o["CM"] - req)) > 1e-9 * max(np.max(np.abs(req)), 1e-6):
        out.append(_fail("CM is not the moment of the sectional forces about cg over q S_ref MAC", o["CM"], req, **case))
    return out


@oracle("C18", "aero_point_drag_breakdown")
def c18_aero_point_drag(rng, tier):
    """the per-surface drag build-up inside an assembled `AeroPoint` (VLMFunctionals): `CD = CDi + CDv + CDw + CD0`, `CL = CL1 + CL0`,
    viscous and wave drag vanish when switched off and are positive when on (wave drag above onset only)"""
    surfaces = _aero_config(rng, tier)
    for s in surfaces:
        s["with_wave"] = gen.flag(rng, bool(rng.uniform() < 0.7))
        s["t_over_c_cp"] = np.array([float(rng.uniform(0.08, 0.16))])
        s["CL0"] = float(rng.choice([0.0, rng.uniform(0.05, 0.4)]))
    flow = _flow(rng, Mach_number=float(rng.choice([rng.uniform(0.3, 0.7), rng.uniform(0.78, 0.92)])))
    if any(s["symmetry"] for s in surfaces):
        flow["beta"] = 0.0
    prob = pipelines.run_aero_point(surfaces, flow)
    o = pipelines.aero_outputs(prob, surfaces)
    out = []
    for s in surfaces:
        n = s["name"]; r = o[n]
        case = dict(surface=n, shape=list(s["mesh"].shape), with_viscous=bool(s["with_viscous"]), with_wave=bool(s["with_wave"]), k_lam=s["k_lam"])
        req = r["CDi"] + r["CDv"] + r["CDw"] + s["CD0"]
        if abs(r["CD"] - req) > 1e-12 * max(abs(req), 1e-9):
            out.append(_fail("surface CD != CDi + CDv + CDw + CD0", r["CD"], req, **case))
        cl1 = float(prob.get_val("pt.%s_perf.CL1" % n)[0])
        if abs(r["CL"] - (cl1 + s["CL0"])) > 1e-12 * max(abs(r["CL"]), 1e-9):
            out.append(_fail("surface CL != CL1 + CL0", r["CL"], cl1 + s["CL0"], **case))
        if not s["with_viscous"] and r["CDv"] != 0.0:
            out.append(_fail("viscous drag is not zero although it is switched off", r["CDv"], 0.0, **case))
        if s["with_viscous"] and not (r["CDv"] > 0.0 and np.isfinite(r["CDv"])):
            out.append(_fail("viscous drag is not a positive finite number although it is switched on", r["CDv"], "> 0", **case))
        if not s["with_wave"] and r["CDw"] != 0.0:
            out.append(_fail("wave drag is not zero although it is switched off", r["CDw"], 0.0, **case))
        if s["with_wave"]:
            # the wave drag of the surface is that of its own lift coefficient CL (= CL1 + CL0) and of its own geometry: the real
            # WaveDrag component alone, fed with the quantities the assembled point exposes
            from openaerostruct.aerodynamics.wave_drag import WaveDrag
            from .core import comp_problem
            g = {k: np.array(prob.get_val("pt.%s.%s" % (n, k))) for k in ("widths", "lengths_spanwise", "chords")}
            toc = np.array(prob.get_val("pt.%s_perf.t_over_c" % n))
            pw = comp_problem(WaveDrag(surface=s), dict(Mach_number=flow["Mach_number"], CL=r["CL"], widths=g["widths"],
                                                        lengths_spanwise=g["lengths_spanwise"], chords=g["chords"], t_over_c=toc))
            req = float(pw.get_val("CDw")[0])
            if abs(r["CDw"] - req) > 1e-12 * max(abs(req), 1e-12):
                out.append(_fail("the wave drag inside the assembled point is not that of the surface lift coefficient CL = CL1 + CL0",
                                 r["CDw"], req, CL=r["CL"], CL0=s["CL0"], Mach=flow["Mach_number"], **case))
        if r["CDw"] < 0.0 or not np.isfinite(r["CDw"]):
            out.append(_fail("wave drag is negative or not finite", r["CDw"], ">= 0", **case))
    return out


@oracle("C19", "mux_demux_adjoint_products")
def c19_mux_demux_products(rng, tier):
    """the matrix-free products of the MPhys mesh demultiplexer and force multiplexer: forward and reverse products are adjoint to
    each other (dot-product test) and the forward product is the permutation itself (the maps are linear)"""
    try:
        from openaerostruct.mphys.demux_surface_mesh import DemuxSurfaceMesh
        from openaerostruct.mphys.mux_surface_forces import MuxSurfaceForces
    except Exception:
        raise Discard()
    import openmdao.api as om
    surfaces = _aero_config(rng, tier, ns=int(rng.choice([1, 2, 3])))
    out = []
    for cls, inname in ((DemuxSurfaceMesh, None), (MuxSurfaceForces, None)):
        for mode in ("fwd", "rev"):
            prob = om.Problem(reports=False)
            prob.model.add_subsystem("c", cls(surfaces=surfaces), promotes=["*"])
            with quiet():
                prob.setup(mode=mode); prob.final_setup()
            comp = prob.model.c
            ins = {k.split(".")[-1]: v["shape"] for k, v in comp._var_abs2meta["input"].items()}
            outs = {k.split(".")[-1]: v["shape"] for k, v in comp._var_abs2meta["output"].items()}
            x = {k: rng.normal(size=sh) for k, sh in ins.items()}
            for k, v in x.items():
                prob.set_val(k, v)
            with quiet():
                prob.run_model()
                y0 = {k: np.array(prob.get_val(k)) for k in outs}
                J = prob.compute_totals(of=list(outs), wrt=list(ins), return_format="dict")
            # linear map: J x == y, entries 0/1 with exactly one 1 per row (a permutation/selection)
            for ok_ in outs:
                acc = np.zeros(int(np.prod(outs[ok_])))
                for ik in ins:
                    Jm = np.atleast_2d(np.array(J[ok_][ik])).reshape(acc.size, -1)
                    acc += Jm @ x[ik].ravel()
                    if not np.all((Jm == 0) | (Jm == 1)):
                        out.append(_fail("%s: derivative entries other than 0 and 1 (%s mode)" % (cls.__name__, mode), float(np.max(np.abs(Jm))), "0/1"))
                if np.max(np.abs(acc - y0[ok_].ravel())) > 1e-12 * max(np.max(np.abs(acc)), 1.0):
                    out.append(_fail("%s: matrix-free %s product is not the map itself" % (cls.__name__, mode), float(np.max(np.abs(acc - y0[ok_].ravel()))), 0.0,
                                     shapes=[list(s["mesh"].shape) for s in surfaces]))
            prob.cleanup()
        # fwd and rev Jacobians must be the same matrix (adjoint consistency)
    def jac(cls, mode, x):
        prob = om.Problem(reports=False)
        prob.model.add_subsystem("c", cls(surfaces=surfaces), promotes=["*"])
        with quiet():
            prob.setup(mode=mode); prob.final_setup()
            comp = prob.model.c
            ins = [k.split(".")[-1] for k in comp._var_abs2meta["input"]]; outs = [k.split(".")[-1] for k in comp._var_abs2meta["output"]]
            prob.run_model()
            return prob.compute_totals(of=outs, wrt=ins, return_format="array")
    for cls in (DemuxSurfaceMesh, MuxSurfaceForces):
        Jf = jac(cls, "fwd", None); Jr = jac(cls, "rev", None)
        if Jf.shape != Jr.shape or np.max(np.abs(Jf - Jr)) > 0:
            out.append(_fail("%s: forward and reverse matrix-free products are not adjoint to each other" % cls.__name__,
                             float(np.max(np.abs(Jf - Jr))) if Jf.shape == Jr.shape else list(Jr.shape), 0.0,
                             shapes=[list(s["mesh"].shape) for s in surfaces]))
    return out


# ---------------------------------------------------------------------------------------
# C04  half-span symmetric model == full-span model
# ---------------------------------------------------------------------------------------
@oracle("C04", "half_vs_full_aero")
def c04_half_full(rng, tier):
    ns = int(rng.choice([1, 1, 2, 3]))
    half, full = [], []
    compressible = bool(rng.uniform() < 0.25)
    ground = False
    with_wave = bool(rng.uniform() < 0.3)
    for k in range(ns):
        nx, ny = _sizes(rng, tier)
        right = bool(rng.uniform() < 0.3)
        mesh = _clean_half(rng, nx, ny, right=right)
        off_plane = bool(k > 0 and rng.uniform() < 0.25)      # a surface that does not touch the symmetry plane
        mesh[:, :, 0] += 5.0 * k; mesh[:, :, 2] += 0.8 * k
        kw = dict(with_wave=with_wave)
        sh = _surf("s%d" % k, mesh, True, rng, **kw)
        fm, sl = _full_from_half(mesh)
        if off_plane:
            # shift the half outboard: the full model then consists of two separate surfaces
            raise Discard()
        sf = dict(sh); sf["mesh"] = fm; sf["symmetry"] = False
        half.append(sh); full.append((sf, sl))
    flow = _flow(rng, Mach_number=float(rng.uniform(0.3, 0.9)) if with_wave else float(rng.uniform(0.1, 0.7)))
    flow["cg"][1] = 0.0          # the moment reference point of a mirror-symmetric configuration lies on the plane
    ph = pipelines.run_aero_point(half, flow, compressible=compressible)
    pf = pipelines.run_aero_point([f for f, _ in full], flow, compressible=compressible)
    oh = pipelines.aero_outputs(ph, half); of = pipelines.aero_outputs(pf, [f for f, _ in full])
    out = []
    case = dict(shapes=[list(s["mesh"].shape) for s in half], compressible=compressible, with_wave=with_wave,
                S_ref_type=[s["S_ref_type"] for s in half], alpha=flow["alpha"], Mach=flow["Mach_number"])
    tol = 1e-8
    for k, (sh, (sf, sl)) in enumerate(zip(half, full)):
        a = oh[sh["name"]]; b = of[sf["name"]]
        if relerr(a["sec_forces"], b["sec_forces"][:, sl]) > tol:
            out.append(_fail("sectional forces on the modelled half differ between half and full model", a["sec_forces"], b["sec_forces"][:, sl], surface=k, **case))
        for q in ("S_ref", "CL", "CDi", "CDv", "CDw", "CD", "L", "D"):
            if abs(a[q] - b[q]) > tol * max(abs(a[q]), abs(b[q]), 1e-6):
                f = _fail("surface %s differs between half and full model" % q, a[q], b[q], surface=k, quantity=q, **case)
                # known finding F4: the wave-drag *coefficient* of a symmetric surface is doubled
                if q in ("CDw", "CD") and with_wave and abs(a["CDw"] - 2 * b["CDw"]) <= 1e-9 * abs(a["CDw"]) \
                        and abs((a["CD"] - a["CDw"]) - (b["CD"] - b["CDw"])) <= 1e-8 * abs(b["CD"]):
                    f["finding"] = "F4"
                out.append(f)
    for q in ("CL", "CD"):
        if abs(oh[q] - of[q]) > tol * max(abs(of[q]), 1e-6):
            f = _fail("aircraft %s differs between half and full model" % q, oh[q], of[q], quantity=q, **case)
            cdw_h = sum(oh[s["name"]]["CDw"] * oh[s["name"]]["S_ref"] for s in half); cdw_f = sum(of[f_[0]["name"]]["CDw"] * of[f_[0]["name"]]["S_ref"] for f_ in full)
            if q == "CD" and with_wave and cdw_f > 0:
                stot = sum(of[f_[0]["name"]]["S_ref"] for f_ in full)
                if abs((oh[q] - of[q]) - (cdw_h - cdw_f) / stot) <= 1e-8 * abs(of[q]):
                    f["finding"] = "F4"
            out.append(f)
    if np.max(np.abs(oh["CM"] - of["CM"])) > tol * max(np.max(np.abs(of["CM"])), 1e-6):
        out.append(_fail("CM differs between half and full model", oh["CM"], of["CM"], **case))
    # mixed descriptions: some surfaces as halves, the others full-span (per-surface conventions must not leak between surfaces)
    if ns >= 2 and not with_wave:
        pick = [bool(rng.integers(2)) for _ in range(ns)]
        if all(pick) or not any(pick):
            pick[0] = not pick[0]
        for order in (1, -1):
            mixed = [(half[k] if pick[k] else full[k][0]) for k in range(ns)][::order]
            om_ = pipelines.aero_outputs(pipelines.run_aero_point(mixed, flow, compressible=compressible), mixed)
            for q in ("CL", "CD"):
                if abs(om_[q] - of[q]) > tol * max(abs(of[q]), 1e-6):
                    out.append(_fail("aircraft %s of a mixed half/full model differs from the full model" % q, om_[q], of[q],
                                     half_surfaces=pick, reversed_order=(order == -1), **case))
            # CM is normalised by the MAC of the first surface: compare the dimensional moment through CM * MAC-independent part
            if order == 1 and np.max(np.abs(om_["CM"] - of["CM"])) > tol * max(np.max(np.abs(of["CM"])), 1e-6):
                out.append(_fail("CM of a mixed half/full model differs from the full model", om_["CM"], of["CM"], half_surfaces=pick, **case))
    return out


# ---------------------------------------------------------------------------------------
# C06  dynamic pressure, scaling, translation
# ---------------------------------------------------------------------------------------
def _aero_config(rng, tier, ns=None):
    ns = ns or int(rng.choice([1, 2, 3], p=[0.35, 0.4, 0.25]))
    surfaces = []
    for k in range(ns):
        nx, ny = _sizes(rng, tier)
        sym = bool(rng.integers(2))
        if not sym and ny % 2 == 0:
            ny += 1
        mesh = gen.rand_mesh(rng, nx, ny, sym, jitter=0.0)
        mesh[:, :, 0] += 5.0 * k; mesh[:, :, 2] += 0.8 * k
        surfaces.append(_surf("s%d" % k, mesh, sym, rng))
    return surfaces


def _with_meshes(surfaces, f):
    out = []
    for s in surfaces:
        t = dict(s); t["mesh"] = f(s["mesh"]); out.append(t)
    return out


@oracle("C06", "scaling_laws")
def c06_scaling(rng, tier):
    surfaces = _aero_config(rng, tier)
    anysym = any(s["symmetry"] for s in surfaces)
    flow = _flow(rng)
    if not anysym:
        flow["beta"] = float(rng.uniform(-10, 10))
    p0 = pipelines.run_aero_point(surfaces, flow); o0 = pipelines.aero_outputs(p0, surfaces)
    out = []
    case = dict(shapes=[list(s["mesh"].shape) for s in surfaces], symmetry=[s["symmetry"] for s in surfaces], alpha=flow["alpha"], beta=flow["beta"])
    tol = 1e-9

    def coeffs(o):
        v = [o["CL"], o["CD"]] + list(o["CM"])
        for s in surfaces:
            v += [o[s["name"]][q] for q in ("CL", "CDi", "CDv", "CD")]
        return np.array(v)

    def forces(o):
        return np.concatenate([o[s["name"]]["sec_forces"].ravel() for s in surfaces])
    # density
    k = float(rng.uniform(0.3, 3))
    f1 = dict(flow); f1["rho"] = flow["rho"] * k
    # viscous drag depends on re (per length) which is an independent input: keep it
    o1 = pipelines.aero_outputs(pipelines.run_aero_point(surfaces, f1), surfaces)
    if relerr(forces(o1), k * forces(o0)) > tol or relerr(coeffs(o1), coeffs(o0)) > tol:
        out.append(_fail("forces do not scale linearly with density / coefficients change", [relerr(forces(o1), k * forces(o0)), relerr(coeffs(o1), coeffs(o0))], 0.0, k=k, **case))
    # speed
    f1 = dict(flow); f1["v"] = flow["v"] * k
    o1 = pipelines.aero_outputs(pipelines.run_aero_point(surfaces, f1), surfaces)
    if relerr(forces(o1), k * k * forces(o0)) > tol or relerr(coeffs(o1), coeffs(o0)) > tol:
        out.append(_fail("forces do not scale with v^2 / coefficients change", [relerr(forces(o1), k * k * forces(o0)), relerr(coeffs(o1), coeffs(o0))], 0.0, k=k, **case))
    # length scaling (re per length inversely)
    k = float(rng.choice([rng.uniform(0.05, 0.5), rng.uniform(2, 30)]))
    s2 = _with_meshes(surfaces, lambda m: m * k)
    f1 = dict(flow); f1["cg"] = flow["cg"] * k; f1["re"] = flow["re"] / k
    o1 = pipelines.aero_outputs(pipelines.run_aero_point(s2, f1), s2)
    if relerr(forces(o1), k * k * forces(o0)) > tol or relerr(coeffs(o1), coeffs(o0)) > tol:
        out.append(_fail("length scaling: forces != k^2 forces or coefficients change", [relerr(forces(o1), k * k * forces(o0)), relerr(coeffs(o1), coeffs(o0))], 0.0, k=k, **case))
    # translation (x, z only when a symmetric surface is present)
    t = rng.normal(size=3) * 5
    if anysym:
        t[1] = 0.0
    s2 = _with_meshes(surfaces, lambda m: m + t)
    f1 = dict(flow); f1["cg"] = flow["cg"] + t
    o1 = pipelines.aero_outputs(pipelines.run_aero_point(s2, f1), s2)
    if relerr(forces(o1), forces(o0)) > 1e-8 or relerr(coeffs(o1), coeffs(o0)) > 1e-8:
        out.append(_fail("translation of all surfaces and the reference point changes the results", [relerr(forces(o1), forces(o0)), relerr(coeffs(o1), coeffs(o0))], 0.0, t=t.tolist(), **case))
    # lift / drag are the components of the summed forces normal to / along the free stream
    a = np.radians(flow["alpha"]); b = np.radians(flow["beta"])
    u = np.array([np.cos(a) * np.cos(b), -np.sin(b), np.sin(a) * np.cos(b)])
    lift_dir = np.array([-np.sin(a), 0.0, np.cos(a)])
    runs = [(o0, flow["beta"])]
    if anysym:
        # the statement is literal: the summed panel forces of the model (the half model's, doubled), also when a symmetric model is
        # run with sideslip (the side-force term then does not vanish)
        fb = dict(flow); fb["beta"] = float(rng.uniform(2, 10) * rng.choice([-1, 1]))
        runs.append((pipelines.aero_outputs(pipelines.run_aero_point(surfaces, fb), surfaces), fb["beta"]))
    for (o, beta) in runs:
        b = np.radians(beta)
        u = np.array([np.cos(a) * np.cos(b), -np.sin(b), np.sin(a) * np.cos(b)])
        for s in surfaces:
            F = o[s["name"]]["sec_forces"].sum(axis=(0, 1)) * (2 if s["symmetry"] else 1)
            L, D = o[s["name"]]["L"], o[s["name"]]["D"]
            sc = max(abs(L), abs(D))
            if abs(D - F.dot(u)) > 1e-10 * sc or abs(L - F.dot(lift_dir)) > 1e-10 * sc:
                out.append(_fail("L, D are not the components of the summed panel forces normal to / along the free stream", [L, D],
                                 [F.dot(lift_dir), F.dot(u)], surface=s["name"], **dict(case, beta=beta)))
    # area weighting
    S = np.array([o0[s["name"]]["S_ref"] for s in surfaces])
    for q in ("CL", "CD"):
        req = np.sum(np.array([o0[s["name"]][q] for s in surfaces]) * S) / S.sum()
        if abs(o0[q] - req) > 1e-12 * max(abs(req), 1e-9):
            out.append(_fail("aircraft %s is not the area-weighted combination" % q, o0[q], req, **case))
    return out


@oracle("C06", "rotating_frame_and_reference_area")
def c06_rotating_and_sref(rng, tier):
    """the same laws with rotation rates about an off-origin reference point (the onset flow then depends on mesh and reference
    point) and with a user-specified reference area: density, speed (rates scaled with it), length (rates scaled inversely),
    translation; aircraft L, D are the sums of the surface values and q S_ref C for whatever reference area is in use"""
    surfaces = _aero_config(rng, tier)
    anysym = any(s["symmetry"] for s in surfaces)
    flow = _flow(rng, omega=rng.normal(size=3) * 0.3, cg=rng.normal(size=3) * np.array([2.0, 0.0 if anysym else 1.0, 1.0]))
    if not anysym:
        flow["beta"] = float(rng.uniform(-10, 10))
    user = float(rng.uniform(5.0, 80.0)) if rng.integers(2) else None
    kw = dict(rotational=True, user_sref=user)
    o0 = pipelines.aero_outputs(pipelines.run_aero_point(surfaces, flow, **kw), surfaces)
    out = []
    case = dict(shapes=[list(s["mesh"].shape) for s in surfaces], symmetry=[s["symmetry"] for s in surfaces], alpha=flow["alpha"],
                beta=flow["beta"], omega=flow["omega"].tolist(), cg=np.array(flow["cg"]).tolist(), user_S_ref_total=user)

    def coeffs(o):
        v = [o["CL"], o["CD"]] + list(o["CM"])
        for s in surfaces:
            v += [o[s["name"]][q] for q in ("CL", "CDi", "CDv", "CD")]
        return np.array(v)

    def forces(o):
        return np.concatenate([o[s["name"]]["sec_forces"].ravel() for s in surfaces] + [[o["L"], o["D"]]])

    def compare(what, o1, kf, kc=1.0, tol=1e-9, **extra):
        e = [relerr(forces(o1), kf * forces(o0)), relerr(coeffs(o1), kc * coeffs(o0))]
        if max(e) > tol:
            out.append(_fail(what, e, 0.0, **extra, **case))
    k = float(rng.uniform(0.3, 3))
    f1 = dict(flow); f1["rho"] = flow["rho"] * k
    compare("rotating frame: forces do not scale linearly with density / coefficients change",
            pipelines.aero_outputs(pipelines.run_aero_point(surfaces, f1, **kw), surfaces), k, k=k)
    f1 = dict(flow); f1["v"] = flow["v"] * k; f1["omega"] = flow["omega"] * k
    compare("rotating frame: forces do not scale with v^2 (rates scaled with v) / coefficients change",
            pipelines.aero_outputs(pipelines.run_aero_point(surfaces, f1, **kw), surfaces), k * k, k=k)
    k = float(rng.choice([rng.uniform(0.1, 0.5), rng.uniform(2, 20)]))
    s2 = _with_meshes(surfaces, lambda m: m * k)
    f1 = dict(flow); f1["cg"] = np.array(flow["cg"]) * k; f1["re"] = flow["re"] / k; f1["omega"] = flow["omega"] / k
    kw2 = dict(kw, user_sref=None if user is None else user * k * k)
    compare("rotating frame: length scaling (rates scaled inversely, reference area by k^2): forces != k^2 forces or coefficients change",
            pipelines.aero_outputs(pipelines.run_aero_point(s2, f1, **kw2), s2), k * k, k=k)
    t = rng.normal(size=3) * 5
    if anysym:
        t[1] = 0.0
    s2 = _with_meshes(surfaces, lambda m: m + t)
    f1 = dict(flow); f1["cg"] = np.array(flow["cg"]) + t
    compare("rotating frame: translation of all surfaces and the reference point together changes the results",
            pipelines.aero_outputs(pipelines.run_aero_point(s2, f1, **kw), s2), 1.0, tol=1e-8, t=t.tolist())
    # aircraft lift and drag: sums of the surface values, and q S_ref C with the reference area in use
    q = 0.5 * flow["rho"] * flow["v"] ** 2
    for name in ("L", "D"):
        cname = "C" + name
        # the surface coefficients carry the constant offsets CL0 / CD0 and the viscous and wave estimates on top of the panel forces
        req = q * sum(o0[s["name"]][cname] * o0[s["name"]]["S_ref"] for s in surfaces)
        if abs(o0[name] - req) > 1e-10 * max(abs(req), 1e-9):
            out.append(_fail("aircraft %s is not q times the sum of surface area times surface coefficient" % name, o0[name], req, **case))
        if abs(o0[name] - q * o0["S_ref_total"] * o0[cname]) > 1e-10 * max(abs(req), 1e-9):
            out.append(_fail("aircraft %s != q S_ref %s" % (name, cname), o0[name], q * o0["S_ref_total"] * o0[cname], **case))
    if user is not None and abs(o0["S_ref_total"] - user) > 1e-12 * user:
        out.append(_fail("user-specified reference area not in use", o0["S_ref_total"], user, **case))
    S = np.array([o0[s["name"]]["S_ref"] for s in surfaces])
    for qn in ("CL", "CD"):
        req = np.sum(np.array([o0[s["name"]][qn] for s in surfaces]) * S) / o0["S_ref_total"]
        if abs(o0[qn] - req) > 1e-12 * max(abs(req), 1e-9):
            out.append(_fail("aircraft %s is not the reference-area-weighted combination" % qn, o0[qn], req, **case))
    return out


# ---------------------------------------------------------------------------------------
# C07  mirror images
# ---------------------------------------------------------------------------------------
@oracle("C07", "mirror_full_span")
def c07_mirror(rng, tier):
    ns = int(rng.choice([1, 2]))
    surfaces = []
    for k in range(ns):
        nx, ny = _sizes(rng, tier)
        if ny % 2 == 0:
            ny += 1
        mesh = gen.rand_mesh(rng, nx, ny, False, jitter=0.02)
        mesh[:, :, 1] += rng.normal() * 0.5      # arbitrary asymmetric placement
        mesh[:, :, 0] += 5.0 * k; mesh[:, :, 2] += 0.8 * k
        surfaces.append(_surf("s%d" % k, mesh, False, rng))
    rotational = bool(rng.integers(2))
    flow = _flow(rng, beta=float(rng.uniform(-12, 12)), omega=rng.normal(size=3) * 0.2)
    mir = _with_meshes(surfaces, _mirror_mesh)
    fm = dict(flow); fm["beta"] = -flow["beta"]; fm["cg"] = flow["cg"] * np.array([1, -1, 1])
    fm["omega"] = flow["omega"] * np.array([-1, 1, -1])      # axial vector: roll and yaw rates change sign
    o0 = pipelines.aero_outputs(pipelines.run_aero_point(surfaces, flow, rotational=rotational), surfaces)
    o1 = pipelines.aero_outputs(pipelines.run_aero_point(mir, fm, rotational=rotational), mir)
    out = []
    case = dict(shapes=[list(s["mesh"].shape) for s in surfaces], beta=flow["beta"], rotational=rotational)
    for s in surfaces:
        f0 = o0[s["name"]]["sec_forces"]; f1 = o1[s["name"]]["sec_forces"][:, ::-1, :] * np.array([1, -1, 1])
        if relerr(f0, f1) > 1e-8:
            out.append(_fail("forces of the mirrored configuration are not the mirror image", f1, f0, surface=s["name"], **case))
    for q in ("CL", "CD"):
        if abs(o0[q] - o1[q]) > 1e-9 * max(abs(o0[q]), 1e-9):
            out.append(_fail("scalar %s changes under mirroring" % q, o1[q], o0[q], **case))
    cm1 = o1["CM"] * np.array([-1, 1, -1])
    if np.max(np.abs(cm1 - o0["CM"])) > 1e-9 * max(np.max(np.abs(o0["CM"])), 1e-9):
        out.append(_fail("CM of the mirrored configuration is not the mirrored pseudo-vector", cm1, o0["CM"], **case))
    return out


@oracle("C07", "left_vs_right_half")
def c07_left_right(rng, tier):
    nx, ny = _sizes(rng, tier)
    left = _clean_half(rng, nx, ny)
    ground = bool(rng.uniform() < 0.3)
    off = (not ground) and bool(rng.uniform() < 0.35)
    if off:
        # root section off the symmetry plane and a non-straight quarter-chord line (twist), as produced by y-shear
        left[:, :, 1] -= float(rng.uniform(0.2, 1.0))
        left[:, :, 2] += np.linspace(0.0, 1.0, nx)[:, None] * np.linspace(0.3, -0.2, ny)[None, :]
    right = _mirror_mesh(left)
    flow = _flow(rng)
    kw = dict(groundplane=True) if ground else {}
    sl = [_surf("w", left, True, rng, **kw)]
    sr = [dict(sl[0], mesh=right)]
    o0 = pipelines.aero_outputs(pipelines.run_aero_point(sl, flow), sl)
    o1 = pipelines.aero_outputs(pipelines.run_aero_point(sr, flow), sr)
    out = []
    case = dict(nx=nx, ny=ny, ground=ground, root_off_plane=off, alpha=flow["alpha"])
    f1 = o1["w"]["sec_forces"][:, ::-1, :] * np.array([1, -1, 1])
    if relerr(o0["w"]["sec_forces"], f1) > 1e-8:
        out.append(_fail("left-half and right-half models of the same wing give different (mirrored) forces", f1, o0["w"]["sec_forces"], **case))
    for q in ("CL", "CD"):
        if abs(o0[q] - o1[q]) > 1e-9 * max(abs(o0[q]), 1e-9):
            out.append(_fail("left/right half models differ in %s" % q, o1[q], o0[q], **case))
    if np.max(np.abs(o0["CM"] - o1["CM"])) > 1e-9 * max(np.max(np.abs(o0["CM"])), 1e-9):
        out.append(_fail("left/right half models differ in CM", o1["CM"], o0["CM"], **case))
    # two symmetric surfaces described on different sides (wing as left half, tail as right half, ...): same aircraft.
    # (Not with an off-plane root: the bridging ghost panel of known finding F5 makes the wing's own flow field asymmetric,
    # so a tail modelled on the left and one modelled on the right legitimately see different inductions.)
    if not ground and not off:
        nx2, ny2 = _sizes(rng, tier)
        tl = _clean_half(rng, nx2, ny2) * 0.5 + np.array([6.0, 0.0, 0.8]); tl[:, -1, 1] = 0.0
        tr = _mirror_mesh(tl)
        base = [_surf("w", left, True, rng), _surf("t", tl, True, rng)]
        ref = pipelines.aero_outputs(pipelines.run_aero_point(base, flow), base)
        for wm, tm, label in ((left, tr, "wing left / tail right"), (right, tl, "wing right / tail left")):
            mixed = [dict(base[0], mesh=wm), dict(base[1], mesh=tm)]
            om_ = pipelines.aero_outputs(pipelines.run_aero_point(mixed, flow), mixed)
            for q in ("CL", "CD"):
                if abs(om_[q] - ref[q]) > 1e-9 * max(abs(ref[q]), 1e-9):
                    out.append(_fail("a model whose symmetric surfaces are described on different sides differs in %s from the all-left model" % q,
                                     om_[q], ref[q], sides=label, **case))
                    break
    return out


# ---------------------------------------------------------------------------------------
# C08  ground effect == method of images
# ---------------------------------------------------------------------------------------
@oracle("C08", "method_of_images")
def c08_images(rng, tier):
    from . import oracles as _o
    ns = int(rng.choice([1, 2, 2, 3]))
    same_size = bool(_o.CURRENT_K % 2 == 1)        # biplane / tandem wings: several ground-effect surfaces of identical (nx, ny)
    surfaces = []
    for k in range(ns):
        if k == 0 or not same_size:
            nx, ny = _sizes(rng, tier)
        mesh = _clean_half(rng, nx, ny, right=bool(rng.uniform() < 0.3))
        mesh[:, :, 0] += 5.0 * k; mesh[:, :, 2] += 0.8 * k
        surfaces.append(_surf("s%d" % k, mesh, True, rng, groundplane=True))
    flow = _flow(rng, alpha=float(rng.uniform(-6, 10)))
    zmin = min(float(np.min(s["mesh"][:, :, 2] * np.cos(np.radians(flow["alpha"])) - s["mesh"][:, :, 0] * np.sin(np.radians(flow["alpha"])))) for s in surfaces)
    flow["height_agl"] = float(rng.uniform(0.5, 30)) + max(0.0, -zmin) + 0.5
    og = pipelines.aero_outputs(pipelines.run_aero_point(surfaces, flow), surfaces)
    # explicit images: free-air analysis with every surface accompanied by its mirror image across the plane
    a = np.radians(flow["alpha"]); n = np.array([np.sin(a), 0.0, -np.cos(a)]); p0 = flow["height_agl"] * n
    free = []
    for s in surfaces:
        t = dict(s); t.pop("groundplane"); free.append(t)
    for s in surfaces:
        t = dict(s); t.pop("groundplane")
        m = s["mesh"]
        img = m - 2 * np.einsum("ijk,k->ij", m - p0, n)[:, :, None] * n
        t["mesh"] = img; t["name"] = s["name"] + "_img"
        free.append(t)
    of = pipelines.aero_outputs(pipelines.run_aero_point(free, flow), free)
    out = []
    case = dict(shapes=[list(s["mesh"].shape) for s in surfaces], alpha=flow["alpha"], h=flow["height_agl"])
    for s in surfaces:
        a_, b_ = og[s["name"]], of[s["name"]]
        if relerr(a_["sec_forces"], b_["sec_forces"]) > 1e-8:
            out.append(_fail("ground-effect forces differ from the free-air analysis with explicit image surfaces", a_["sec_forces"], b_["sec_forces"], surface=s["name"], **case))
        for q in ("CL", "CDi"):
            if abs(a_[q] - b_[q]) > 1e-8 * max(abs(b_[q]), 1e-9):
                out.append(_fail("ground-effect %s differs from the method of images" % q, a_[q], b_[q], surface=s["name"], **case))
    # far from the ground the results converge to free air
    far = dict(flow); far["height_agl"] = 1e6 * max(np.ptp(s["mesh"][:, :, 0]) for s in surfaces)
    ofar = pipelines.aero_outputs(pipelines.run_aero_point(surfaces, far), surfaces)
    o0 = pipelines.aero_outputs(pipelines.run_aero_point(free[:len(surfaces)], flow), free[:len(surfaces)])
    for s in surfaces:
        if relerr(ofar[s["name"]]["sec_forces"], o0[s["name"]]["sec_forces"]) > 1e-8:
            out.append(_fail("ground effect does not vanish far from the ground", ofar[s["name"]]["sec_forces"], o0[s["name"]]["sec_forces"], **case))
    return out


@oracle("C08", "rejected_without_symmetry")
def c08_reject(rng, tier):
    nx, ny = _sizes(rng, tier)
    if ny % 2 == 0:
        ny += 1
    mesh = gen.rand_mesh(rng, nx, ny, False)
    s = pipelines.aero_surface("w", mesh, False, groundplane=True)
    try:
        pipelines.run_aero_point([s], _flow(rng))
    except ValueError:
        return []
    except Exception as ex:
        return [_fail("ground effect without symmetry raised %s instead of ValueError" % type(ex).__name__, repr(ex), "ValueError")]
    return [_fail("ground effect on a surface without symmetry was accepted", "no error", "ValueError at set-up", nx=nx, ny=ny)]


# ---------------------------------------------------------------------------------------
# C09  Prandtl-Glauert
# ---------------------------------------------------------------------------------------
def _states_forces(surfaces, flow, compressible, meshes=None, omega=None, cg=None):
    import openmdao.api as om
    from openaerostruct.aerodynamics.states import VLMStates
    from openaerostruct.aerodynamics.compressible_states import CompressibleVLMStates
    from openaerostruct.aerodynamics.geometry import VLMGeometry
    prob = om.Problem(reports=False)
    ivc = om.IndepVarComp()
    units = dict(alpha="deg", beta="deg", v="m/s", rho="kg/m**3", Mach_number=None)
    for k in ("alpha", "beta", "v", "rho", "Mach_number"):
        ivc.add_output(k, val=flow[k], units=units[k])
    rotational = omega is not None
    if rotational:
        ivc.add_output("omega", val=np.array(omega, dtype=float), units="rad/s")
        ivc.add_output("cg", val=np.array(cg if cg is not None else np.zeros(3), dtype=float), units="m")
    prob.model.add_subsystem("ivc", ivc, promotes=["*"])
    for i, s in enumerate(surfaces):
        m = s["mesh"] if meshes is None else meshes[i]
        ivc.add_output(s["name"] + "_def_mesh", val=m)
        prob.model.add_subsystem(s["name"] + "_geom", VLMGeometry(surface=s))
        prob.model.connect(s["name"] + "_def_mesh", s["name"] + "_geom.def_mesh")
        prob.model.connect(s["name"] + "_geom.normals", s["name"] + "_normals")
    st = CompressibleVLMStates(surfaces=surfaces, rotational=rotational) if compressible else VLMStates(surfaces=surfaces, rotational=rotational)
    prob.model.add_subsystem("st", st, promotes=["*"])
    with quiet():
        prob.setup(); prob.run_model()
    return [np.array(prob.get_val(s["name"] + "_sec_forces")) for s in surfaces]


@oracle("C09", "prandtl_glauert_spec")
def c09_pg(rng, tier):
    surfaces = _aero_config(rng, tier, ns=int(rng.choice([1, 2])))
    anysym = any(s["symmetry"] for s in surfaces)
    flow = _flow(rng, Mach_number=float(rng.choice([rng.uniform(0.0, 0.9), rng.uniform(0.9, 0.949)])), alpha=float(rng.uniform(-15, 15)))
    if not anysym:
        flow["beta"] = float(rng.uniform(-10, 10))
    M = flow["Mach_number"]; B = np.sqrt(1 - M * M)
    a = np.radians(flow["alpha"]); b = np.radians(flow["beta"])
    # wind-frame rotation: x along the free stream
    Ry = np.array([[np.cos(a), 0, np.sin(a)], [0, 1, 0], [-np.sin(a), 0, np.cos(a)]])
    Rz = np.array([[np.cos(b), -np.sin(b), 0], [np.sin(b), np.cos(b), 0], [0, 0, 1]])
    R = Rz @ Ry
    comp = _states_forces(surfaces, flow, True)
    # specification: rotate into the wind frame, stretch y, z by B, solve incompressible at alpha = beta = 0,
    # scale forces by 1/B^4 (x) and 1/B^3 (y, z), rotate back
    pg_meshes = [np.einsum("ij,abj->abi", R, s["mesh"]) * np.array([1.0, B, B]) for s in surfaces]
    f0 = dict(flow); f0["alpha"] = 0.0; f0["beta"] = 0.0
    inc = _states_forces(surfaces, f0, False, meshes=pg_meshes)
    out = []
    case = dict(shapes=[list(s["mesh"].shape) for s in surfaces], Mach=M, alpha=flow["alpha"], beta=flow["beta"])
    for k, s in enumerate(surfaces):
        spec = inc[k] / np.array([B ** 4, B ** 3, B ** 3])
        spec = np.einsum("ji,abj->abi", R, spec)
        if relerr(comp[k], spec) > 1e-8:
            out.append(_fail("compressible forces differ from the Prandtl-Glauert specification", comp[k], spec, surface=k, **case))
    return out


@oracle("C09", "mach_zero_and_continuity")
def c09_mach0(rng, tier):
    surfaces = _aero_config(rng, tier, ns=1)
    flow = _flow(rng, Mach_number=0.0, alpha=float(rng.uniform(-15, 15)))
    comp = _states_forces(surfaces, flow, True)
    inc = _states_forces(surfaces, flow, False)
    out = []
    case = dict(shapes=[list(s["mesh"].shape) for s in surfaces], alpha=flow["alpha"])
    if relerr(comp[0], inc[0]) > 1e-8:
        out.append(_fail("compressible and incompressible solvers differ at Mach 0", comp[0], inc[0], **case))
    # ... also with rigid-body rotation rates (the `rotational` option)
    omega = rng.normal(size=3) * 0.3; cg = rng.normal(size=3)
    if surfaces[0]["symmetry"]:
        omega[[0, 2]] = 0.0; cg[1] = 0.0                    # a half model can only represent pitch rate
    compr = _states_forces(surfaces, flow, True, omega=omega, cg=cg)
    incr = _states_forces(surfaces, flow, False, omega=omega, cg=cg)
    if relerr(compr[0], incr[0]) > 1e-8:
        out.append(_fail("compressible and incompressible solvers differ at Mach 0 with rotation rates", compr[0], incr[0],
                         omega=[float(x) for x in omega], **case))
    # continuity in Mach: a 1e-6 step in M changes forces by O(1e-6)
    M = float(rng.choice([rng.uniform(0.05, 0.9), rng.uniform(0.9, 0.949)]))
    f1 = dict(flow); f1["Mach_number"] = M
    f2 = dict(flow); f2["Mach_number"] = M + 1e-6
    c1 = _states_forces(surfaces, f1, True)[0]; c2 = _states_forces(surfaces, f2, True)[0]
    if relerr(c1, c2) > 1e-3:
        out.append(_fail("forces jump across a 1e-6 step in Mach number", relerr(c1, c2), "<1e-3", Mach=M, **case))
    return out


# ---------------------------------------------------------------------------------------
# C19  composition
# ---------------------------------------------------------------------------------------
@oracle("C19", "order_split_far")
def c19_composition(rng, tier):
    ns = int(rng.choice([2, 3, 3]))
    from . import oracles as _o
    surfaces = []
    mixed = bool(_o.CURRENT_K % 2 == 1)
    for k in range(ns):
        nx, ny = _sizes(rng, tier)
        sym = bool(rng.integers(2))
        right = bool(sym and rng.uniform() < 0.5)
        # symmetric surfaces are meshed on either side (left or right half): per-surface flags must not leak between surfaces.
        # Every second case has two symmetric surfaces of opposite sides with at least two spanwise panels (with one panel the
        # mirrored indexing is invisible); which of them comes last alternates
        if mixed and k < 2:
            sym = True; ny = max(ny, 3); right = bool((k + (_o.CURRENT_K // 2)) % 2)
        if not sym and ny % 2 == 0:
            ny += 1
        mesh = gen.rand_mesh(rng, nx, ny, sym, jitter=0.0, right=right)
        mesh[:, :, 0] += 5.0 * k; mesh[:, :, 2] += 0.8 * k
        surfaces.append(_surf("s%d" % k, mesh, sym, rng))
    compressible = bool(rng.uniform() < 0.3)
    flow = _flow(rng)
    o0 = pipelines.aero_outputs(pipelines.run_aero_point(surfaces, flow, compressible=compressible), surfaces)
    perm = list(rng.permutation(ns))
    sp = [surfaces[i] for i in perm]
    o1 = pipelines.aero_outputs(pipelines.run_aero_point(sp, flow, compressible=compressible), sp)
    out = []
    case = dict(shapes=[list(s["mesh"].shape) for s in surfaces], perm=[int(i) for i in perm], compressible=compressible)
    for s in surfaces:
        if relerr(o0[s["name"]]["sec_forces"], o1[s["name"]]["sec_forces"]) > 1e-8:
            out.append(_fail("forces depend on the order of the surface list", o1[s["name"]]["sec_forces"], o0[s["name"]]["sec_forces"], surface=s["name"], **case))
    for q in ("CL", "CD"):
        if abs(o0[q] - o1[q]) > 1e-9 * max(abs(o0[q]), 1e-9):
            out.append(_fail("aircraft %s depends on the order of the surface list" % q, o1[q], o0[q], **case))
    # a far-away surface has vanishing influence
    s0 = [surfaces[0]]
    oa = pipelines.aero_outputs(pipelines.run_aero_point(s0, flow, compressible=compressible), s0)
    chord = np.ptp(surfaces[0]["mesh"][:, :, 0])
    far = dict(surfaces[1]); far["mesh"] = surfaces[1]["mesh"] + np.array([1e6 * chord, 0.0, 1e6 * chord])
    for lst in ([surfaces[0], far], [far, surfaces[0]]):
        ob = pipelines.aero_outputs(pipelines.run_aero_point(lst, flow, compressible=compressible), lst)
        if relerr(oa["s0"]["sec_forces"], ob["s0"]["sec_forces"]) > 1e-7:
            out.append(_fail("a surface 1e6 chords away changes the forces", ob["s0"]["sec_forces"], oa["s0"]["sec_forces"], **case))
    return out


@oracle("C19", "split_surface")
def c19_split(rng, tier):
    nx, ny = _sizes(rng, tier)
    ny = max(ny, 3)
    if ny % 2 == 0:
        ny += 1
    mesh = gen.rand_mesh(rng, nx, ny + 2, False, jitter=0.0)
    nyt = mesh.shape[1]
    cut = int(rng.integers(1, nyt - 1))
    flow = _flow(rng, beta=float(rng.uniform(-8, 8)))
    whole = [pipelines.aero_surface("w", mesh, False)]
    parts = [pipelines.aero_surface("a", mesh[:, :cut + 1], False), pipelines.aero_surface("b", mesh[:, cut:], False)]
    o0 = pipelines.aero_outputs(pipelines.run_aero_point(whole, flow), whole)
    o1 = pipelines.aero_outputs(pipelines.run_aero_point(parts, flow), parts)
    f1 = np.concatenate([o1["a"]["sec_forces"], o1["b"]["sec_forces"]], axis=1)
    out = []
    if relerr(o0["w"]["sec_forces"], f1) > 1e-8:
        out.append(_fail("splitting a surface into two abutting surfaces changes the forces", f1, o0["w"]["sec_forces"], nx=nx, ny=nyt, cut=cut))
    return out


# ---------------------------------------------------------------------------------------
# known-finding classes exercised explicitly
# ---------------------------------------------------------------------------------------
def _off_plane_pair(rng, nx, ny):
    mesh = _clean_half(rng, nx, ny)
    mesh[:, :, 1] -= float(rng.uniform(0.5, 2.0))       # root edge off the symmetry plane
    return mesh


@oracle("C04", "off_plane_symmetric_surface")
def c04_off_plane(rng, tier):
    """a symmetric surface that does not touch the symmetry plane (e.g. twin fins) vs the two-surface full model"""
    nx, ny = _sizes(rng, tier)
    mesh = _off_plane_pair(rng, nx, ny)
    flow = _flow(rng); flow["cg"][1] = 0.0
    half = [pipelines.aero_surface("fin", mesh, True)]
    full = [pipelines.aero_surface("fin", mesh, False), pipelines.aero_surface("fin_m", _mirror_mesh(mesh), False)]
    oh = pipelines.aero_outputs(pipelines.run_aero_point(half, flow), half)
    of = pipelines.aero_outputs(pipelines.run_aero_point(full, flow), full)
    if relerr(oh["fin"]["sec_forces"], of["fin"]["sec_forces"]) > 1e-8:
        f = _fail("symmetric surface off the symmetry plane: half model differs from the two-surface full model",
                  oh["fin"]["CL"], of["fin"]["CL"], nx=nx, ny=ny, root_y=float(mesh[0, -1, 1]))
        f["finding"] = "F5"
        return [f]
    return []


@oracle("C07", "left_vs_right_half_design_variables")
def c07_left_right_dvs(rng, tier):
    from .oracles import _run_geometry, _clean_mesh
    nx, ny = _sizes(rng, tier)
    mesh, span, chord = _clean_mesh(rng, nx, ny, True, "flat")
    right = _mirror_mesh(mesh)
    ny = mesh.shape[1]
    dv = str(rng.choice(["chord_cp", "twist_cp", "xshear_cp", "zshear_cp", "span", "sweep", "dihedral", "taper"]))
    ncp = 3
    val = {"chord_cp": rng.uniform(0.7, 1.3, size=ncp), "twist_cp": rng.uniform(-5, 5, size=ncp), "xshear_cp": rng.normal(size=ncp) * 0.2,
           "zshear_cp": rng.normal(size=ncp) * 0.2, "span": span * float(rng.uniform(0.8, 1.3)), "sweep": float(rng.uniform(5, 30)),
           "dihedral": float(rng.uniform(2, 10)), "taper": float(rng.uniform(0.4, 0.9))}[dv]
    # control points run tip -> root on the left half; the right half needs them in reversed (root -> tip) order
    vl = val
    vr = val[::-1].copy() if isinstance(val, np.ndarray) else val
    ml = _run_geometry(dict(name="w", symmetry=True, mesh=mesh, **{dv: vl}))
    mr = _run_geometry(dict(name="w", symmetry=True, mesh=right, **{dv: vr}))
    if relerr(ml, _mirror_mesh(mr)) > 1e-10:
        f = _fail("left-half and right-half models of the same wing differ under design variable " + dv,
                  float(np.max(np.abs(ml - _mirror_mesh(mr)))), 0.0, nx=nx, ny=ny, dv=dv)
        if dv in ("sweep", "dihedral", "taper"):
            f["finding"] = "F6"
        return [f]
    return []


# ---------------------------------------------------------------------------------------
# C03  problem-level histories on a live AeroPoint
# ---------------------------------------------------------------------------------------
@oracle("C03", "aero_point_history")
def c03_aero_history(rng, tier):
    surfaces = _aero_config(rng, tier, ns=int(rng.choice([1, 2])))
    for s in surfaces:
        s["with_wave"] = bool(rng.integers(2)); s["with_viscous"] = True
    ofs = ["pt.CL", "pt.CD", "pt.CM"]
    wrt = ["alpha", "Mach_number", "v", "rho", "re"] + [s["name"] + "_def_mesh" for s in surfaces]

    def point():
        return _flow(rng, Mach_number=float(rng.uniform(0.3, 0.93)), alpha=float(rng.uniform(-5, 10)))

    def setpoint(prob, f):
        for k in ("alpha", "Mach_number", "v", "rho", "re", "cg"):
            prob.set_val(k, f[k])

    def evaluate(prob):
        with quiet():
            prob.run_model()
            J = prob.compute_totals(of=ofs, wrt=wrt, return_format="array")
        return np.concatenate([np.atleast_1d(prob.get_val(o)).ravel() for o in ofs]), np.array(J)
    nops = int(rng.integers(2, 5)) if tier == "quick" else int(rng.integers(3, 9))
    pts = [point() for _ in range(nops)]
    live = pipelines.build_aero_point(surfaces, pts[0])
    seq = []
    for f in pts:
        setpoint(live, f)
        oL, JL = evaluate(live); seq.append("set,run,totals")
        if rng.uniform() < 0.4:
            with quiet():
                live.compute_totals(of=ofs, wrt=wrt); seq.append("totals")
        if rng.uniform() < 0.25:
            with quiet():
                live.check_partials(out_stream=None, compact_print=True); seq.append("check_partials")
            oL, JL = evaluate(live)
    fresh = pipelines.build_aero_point(surfaces, pts[-1])
    oF, JF = evaluate(fresh)
    out = []
    case = dict(shapes=[list(s["mesh"].shape) for s in surfaces], sequence=seq, last_point={k: pts[-1][k] for k in ("alpha", "Mach_number")})
    if relerr(oL, oF) > 1e-10:
        out.append(_fail("outputs of a live AeroPoint after a history differ from a fresh problem", oL, oF, **case))
    sc = max(np.max(np.abs(JF)), 1e-300)
    # OpenMDAO 3.45's check_partials leaves its finite-difference approximation in the storage of sub-Jacobians that
    # were declared constant (reproduced on a 5-line component that has nothing to do with OAS): after a check_partials
    # the totals of *any* OpenMDAO model differ from a fresh problem at finite-difference accuracy.  That is the
    # framework's doing, so histories containing check_partials are compared at 1e-5 instead of 1e-8.
    jtol = 1e-5 if "check_partials" in seq else 1e-8
    if np.max(np.abs(JL - JF)) > jtol * sc:
        out.append(_fail("total derivatives of a live AeroPoint after a history differ from a fresh problem", float(np.max(np.abs(JL - JF))), 0.0, **case))
    return out


# ---------------------------------------------------------------------------------------
# C19  MPhys wrapper groups == native groups, also with several wrapped problems alive in one process
# ---------------------------------------------------------------------------------------
def _mphys_wrapper(surfaces, flow, compressible):
    import openmdao.api as om
    from mphys.core import MPhysVariables as MV
    from openaerostruct.mphys.demux_surface_mesh import DemuxSurfaceMesh
    from openaerostruct.mphys.mux_surface_forces import MuxSurfaceForces
    from openaerostruct.mphys.aero_solver_group import AeroSolverGroup
    from openaerostruct.mphys.aero_funcs_group import AeroFuncsGroup
    prob = om.Problem(reports=False)
    ivc = om.IndepVarComp()
    ivc.add_output(MV.Aerodynamics.Surface.COORDINATES, val=np.concatenate([s["mesh"].ravel() for s in surfaces]), units="m")
    ivc.add_output(MV.Aerodynamics.FlowConditions.ANGLE_OF_ATTACK, val=flow["alpha"], units="deg")
    ivc.add_output(MV.Aerodynamics.FlowConditions.YAW_ANGLE, val=0.0, units="deg")
    ivc.add_output(MV.Aerodynamics.FlowConditions.MACH_NUMBER, val=flow["Mach_number"])
    ivc.add_output(MV.Aerodynamics.FlowConditions.REYNOLDS_NUMBER, val=flow["re"], units="1/m")
    ivc.add_output("v", val=flow["v"], units="m/s"); ivc.add_output("rho", val=flow["rho"], units="kg/m**3")
    ivc.add_output("cg", val=np.array(flow["cg"]), units="m")
    m = prob.model
    m.add_subsystem("ivc", ivc, promotes=["*"])
    m.add_subsystem("demuxer", DemuxSurfaceMesh(surfaces=surfaces), promotes=["*"])
    m.add_subsystem("states", AeroSolverGroup(surfaces=surfaces, compressible=compressible), promotes=["*"])
    m.add_subsystem("muxer", MuxSurfaceForces(surfaces=surfaces), promotes=["*"])
    m.add_subsystem("funcs", AeroFuncsGroup(surfaces=surfaces, write_solution=False), promotes=["*"])
    with quiet():
        prob.setup()
        # the thickness-to-chord distribution is an input of the functionals (connected from the geometry by the MPhys builder)
        for s in surfaces:
            prob.set_val(s["name"] + ".t_over_c", np.full(s["mesh"].shape[1] - 1, float(np.atleast_1d(s.get("t_over_c_cp", [0.12]))[0])))
    return prob


def _wrapper_results(prob):
    from mphys.core import MPhysVariables as MV
    with quiet():
        prob.run_model()
    return (np.array(prob.get_val(MV.Aerodynamics.Surface.LOADS)).copy(), float(prob.get_val("CL")[0]), float(prob.get_val("CD")[0]),
            np.array(prob.get_val("CM")).ravel().copy())


def _mphys_builder_loads(surfaces, flow, options):
    """nodal forces of the coupling group the MPhys builder hands out for the given user options (serial run: OpenMDAO's FakeComm gets
    the two mpi4py methods MPhys' DistributedConverter calls)"""
    import openmdao.api as om
    from openmdao.utils.mpi import FakeComm
    from mphys.core import MPhysVariables as MV
    from openaerostruct.mphys.aero_builder import AeroBuilder
    if not hasattr(FakeComm, "Get_rank"):
        FakeComm.Get_rank = lambda self: 0
        FakeComm.bcast = lambda self, obj, root=0: obj
    b = AeroBuilder(surfaces, options=options)
    prob = om.Problem(reports=False)
    ivc = om.IndepVarComp()
    ivc.add_output(MV.Aerodynamics.Surface.COORDINATES, val=np.concatenate([s["mesh"].ravel() for s in surfaces]), units="m", distributed=True)
    ivc.add_output(MV.Aerodynamics.FlowConditions.ANGLE_OF_ATTACK, val=flow["alpha"], units="deg")
    ivc.add_output(MV.Aerodynamics.FlowConditions.YAW_ANGLE, val=0.0, units="deg")
    ivc.add_output(MV.Aerodynamics.FlowConditions.MACH_NUMBER, val=flow["Mach_number"])
    ivc.add_output("v", val=flow["v"], units="m/s"); ivc.add_output("rho", val=flow["rho"], units="kg/m**3")
    prob.model.add_subsystem("ivc", ivc, promotes=["*"])
    prob.model.add_subsystem("cpl", b.get_coupling_group_subsystem(), promotes=["*"])
    with quiet():
        prob.setup(); prob.run_model()
    return np.array(prob.get_val(MV.Aerodynamics.Surface.LOADS)).ravel().copy()


@oracle("C19", "mphys_wrapper_equals_native")
def c19_mphys(rng, tier):
    try:
        import mphys  # noqa: F401
    except Exception:
        raise Discard()
    surfaces = _aero_config(rng, tier, ns=2)
    compressible = bool(rng.integers(2))
    flow = _flow(rng)
    out = []
    case = dict(shapes=[list(s["mesh"].shape) for s in surfaces], compressible=compressible)

    def native(surfs):
        p = pipelines.run_aero_point(surfs, flow, compressible=compressible)
        f = np.concatenate([np.array(p.get_val("pt.aero_states.%s_mesh_point_forces" % s["name"])).ravel() for s in surfs])
        return f, float(p.get_val("pt.CL")[0]), float(p.get_val("pt.CD")[0]), np.array(p.get_val("pt.CM")).ravel().copy()

    def differs(a, b):
        # forces, CL, CD and CM (normalised by the mean aerodynamic chord of the first *listed* surface)
        return relerr(a[0], b[0]) > 1e-9 or abs(a[1] - b[1]) > 1e-9 * max(abs(b[1]), 1e-9) or abs(a[2] - b[2]) > 1e-9 * max(abs(b[2]), 1e-9) \
            or np.max(np.abs(a[3] - b[3])) > 1e-8 * max(np.max(np.abs(b[3])), 1e-9)
    order2 = [surfaces[1], surfaces[0]]
    n1 = native(surfaces); n2 = native(order2)
    w1 = _mphys_wrapper(surfaces, flow, compressible)
    r1 = _wrapper_results(w1)
    if differs(r1, n1):
        out.append(_fail("MPhys wrapper groups differ from the native AeroPoint", [r1[1], r1[2]], [n1[1], n1[2]], **case))
    w2 = _mphys_wrapper(order2, flow, compressible)         # a second wrapped model, other surface order, same process
    r2 = _wrapper_results(w2)
    if differs(r2, n2):
        out.append(_fail("MPhys wrapper groups differ from the native AeroPoint (permuted surface list)", [r2[1], r2[2]], [n2[1], n2[2]], **case))
    # the MPhys builder honours every explicitly given option, also a falsy one (compressible=False against its default True)
    opts = dict(compressible=compressible, write_solution=False)
    if rng.integers(2):
        opts["user_specified_Sref"] = False
    fb = _mphys_builder_loads(surfaces, flow, opts)
    if relerr(fb, n1[0]) > 1e-9:
        out.append(_fail("coupling group of the MPhys builder (options %s) does not return the forces of the native AeroPoint(compressible=%s)"
                         % (opts, compressible), float(np.abs(fb).max()), float(np.abs(n1[0]).max()), Mach_number=flow["Mach_number"], **case))
    r1b = _wrapper_results(w1)                              # the first problem is still alive: re-run it
    if differs(r1b, n1):
        out.append(_fail("a live MPhys-wrapped problem changes its results after another wrapped problem was set up in the same process",
                         [r1b[1], r1b[2]], [n1[1], n1[2]], **case))
    return out
