"""Translator for straight-line accumulation code: a method that fills an array slot by slot with

        X = 0.0                       (or  X[...] = e)
        for i in range(3): X[:, i, i] -= 2.0
        X[:, 1, 1] += np.cos(rx)
        ...

is executed symbolically: every distinct index text of the target is a slot, `=` replaces the slot's expression, `+=`/`-=` extend it
(left-associated, in program order), `for v in range(<int>)` is unrolled with the loop variable substituted.  Local scalar
assignments `name = expr` met on the way are inlined.  The result is one Lean definition per slot over the model's vocabulary
(see generate._Tr).  Anything else inside the method that touches the target raises, so that a rewrite of the method breaks the
obligation instead of being silently misread.
"""
import ast, copy, re


class _Subst(ast.NodeTransformer):
    def __init__(self, env):
        self.env = env

    def visit_Name(self, node):
        if node.id in self.env:
            return ast.copy_location(ast.Constant(self.env[node.id]), node)
        return node


def _slot_name(txt):
    t = txt.replace(":", "a").replace("-", "m")
    return re.sub(r"_+", "_", re.sub(r"\W", "_", t)).strip("_")


def accumulate(func, target, Tr, inline=()):
    """func: ast.FunctionDef; target: source text of the array (e.g. 'outputs["transformation_matrix"]').
    returns [(slot name, index text, lean expr, vars)] in order of first appearance"""
    norm = lambda n: ast.unparse(n).replace("'", '"')
    slots = {}          # index text -> list of (op, ast expr)
    order = []
    base = [None]
    local = {}

    def touch(stmt_txt):
        raise RuntimeError("statement not understood by the accumulation translator: " + stmt_txt)

    def run(body, env):
        for st in body:
            st2 = _Subst(env).visit(copy.deepcopy(st)) if env else st
            if isinstance(st2, ast.For):
                it = st2.iter
                if isinstance(it, ast.Call) and norm(it.func) == "range" and len(it.args) == 1 and isinstance(it.args[0], ast.Constant) \
                        and isinstance(st2.target, ast.Name):
                    for v in range(int(it.args[0].value)):
                        run(st.body, dict(env, **{st2.target.id: v}))
                    continue
                if target in norm(st2):
                    touch(norm(st2))
                continue
            if isinstance(st2, ast.Assign) and len(st2.targets) == 1:
                tg = st2.targets[0]
                if norm(tg) == target:
                    base[0] = st2.value; slots.clear(); del order[:]
                    continue
                if isinstance(tg, ast.Subscript) and norm(tg.value) == target:
                    k = norm(tg.slice)
                    if k not in slots:
                        order.append(k)
                    slots[k] = [("=", st2.value)]
                    continue
                if isinstance(tg, ast.Name) and tg.id in inline:
                    local[tg.id] = st2.value
                    continue
            if isinstance(st2, ast.AugAssign) and isinstance(st2.target, ast.Subscript) and norm(st2.target.value) == target \
                    and isinstance(st2.op, (ast.Add, ast.Sub)):
                k = norm(st2.target.slice)
                if k not in slots:
                    order.append(k)
                    if base[0] is None:
                        touch("accumulation into %s[%s] without an initial value" % (target, k))
                    slots[k] = [("=", base[0])]
                slots[k].append(("+" if isinstance(st2.op, ast.Add) else "-", st2.value))
                continue
            if target in norm(st2) and not isinstance(st2, (ast.Expr,)):
                touch(norm(st2))

    run(func.body, {})
    out = []
    for k in order:
        tr = Tr()
        expr = None
        for op, e in slots[k]:
            e = _InlineLocals(local).visit(copy.deepcopy(e))
            t = tr.tr(e)
            expr = t if op == "=" else "(%s %s %s)" % (expr, op, t)
        out.append((_slot_name(k), k, expr, list(tr.vars)))
    return out


class _InlineLocals(ast.NodeTransformer):
    def __init__(self, local):
        self.local = local

    def visit_Name(self, node):
        if node.id in self.local:
            return self.visit(copy.deepcopy(self.local[node.id]))
        return node
