"""Runners for the real OpenAeroStruct groups (AeroPoint, SpatialBeamAlone, AerostructPoint)."""
import numpy as np
import openmdao.api as om
from .core import quiet


def left_flag(mesh):
    return bool(abs(mesh[0, 0, 1]) > abs(mesh[0, -1, 1]))


def aero_surface(name, mesh, symmetry, **kw):
    s = dict(name=name, symmetry=symmetry, S_ref_type="wetted", mesh=np.array(mesh, dtype=float), CL0=0.0, CD0=0.0,
             k_lam=0.05, t_over_c_cp=np.array([0.12]), c_max_t=0.303, with_viscous=False, with_wave=False)
    s.update(kw)
    return s


def build_aero_point(surfaces, flow, compressible=False, rotational=False, meshes=None, user_sref=None):
    """flow: dict(alpha, beta, v, rho, Mach_number, re, cg, omega, height_agl); meshes: def_mesh per surface (default: surface mesh)"""
    from openaerostruct.aerodynamics.aero_groups import AeroPoint
    prob = om.Problem(reports=False)
    ivc = om.IndepVarComp()
    ivc.add_output("v", val=flow.get("v", 50.0), units="m/s")
    ivc.add_output("alpha", val=flow.get("alpha", 5.0), units="deg")
    ivc.add_output("beta", val=flow.get("beta", 0.0), units="deg")
    ivc.add_output("Mach_number", val=flow.get("Mach_number", 0.3))
    ivc.add_output("re", val=flow.get("re", 1.0e6), units="1/m")
    ivc.add_output("rho", val=flow.get("rho", 0.9), units="kg/m**3")
    ivc.add_output("cg", val=np.array(flow.get("cg", np.zeros(3)), dtype=float), units="m")
    if rotational:
        ivc.add_output("omega", val=np.array(flow.get("omega", np.zeros(3)), dtype=float), units="rad/s")
    ground = any(s.get("groundplane", False) for s in surfaces)
    if ground:
        ivc.add_output("height_agl", val=flow.get("height_agl", 8000.0), units="m")
    if user_sref is not None:
        ivc.add_output("S_ref_total", val=user_sref, units="m**2")
    for k, s in enumerate(surfaces):
        m = s["mesh"] if meshes is None else meshes[k]
        ivc.add_output(s["name"] + "_def_mesh", val=np.array(m, dtype=float), units="m")
        ivc.add_output(s["name"] + "_t_over_c", val=np.full(s["mesh"].shape[1] - 1, float(np.atleast_1d(s.get("t_over_c_cp", [0.12]))[0])))
    prob.model.add_subsystem("flow", ivc, promotes=["*"])
    prom = ["v", "alpha", "beta", "Mach_number", "re", "rho", "cg"]
    if rotational:
        prom.append("omega")
    if ground:
        prom.append("height_agl")
    if user_sref is not None:
        prom.append("S_ref_total")
    prob.model.add_subsystem("pt", AeroPoint(surfaces=surfaces, rotational=rotational, compressible=compressible,
                                             user_specified_Sref=user_sref is not None), promotes_inputs=prom)
    for s in surfaces:
        n = s["name"]
        prob.model.connect(n + "_def_mesh", ["pt." + n + ".def_mesh", "pt.aero_states." + n + "_def_mesh"])
        prob.model.connect(n + "_t_over_c", "pt." + n + "_perf.t_over_c")
    with quiet():
        prob.setup()
    return prob


def run_aero_point(surfaces, flow, **kw):
    prob = build_aero_point(surfaces, flow, **kw)
    with quiet():
        prob.run_model()
    return prob


def aero_outputs(prob, surfaces):
    out = {"CL": float(prob.get_val("pt.CL")[0]), "CD": float(prob.get_val("pt.CD")[0]), "CM": np.array(prob.get_val("pt.CM")),
           "circulations": np.array(prob.get_val("pt.circulations"))}
    for s in surfaces:
        n = s["name"]
        out[n] = dict(
            sec_forces=np.array(prob.get_val("pt.aero_states.%s_sec_forces" % n)),
            CL=float(prob.get_val("pt.%s_perf.CL" % n)[0]), CD=float(prob.get_val("pt.%s_perf.CD" % n)[0]),
            CDi=float(prob.get_val("pt.%s_perf.CDi" % n)[0]), CDv=float(prob.get_val("pt.%s_perf.CDv" % n)[0]),
            CDw=float(prob.get_val("pt.%s_perf.CDw" % n)[0]), S_ref=float(prob.get_val("pt.%s.S_ref" % n)[0]),
            L=float(prob.get_val("pt.%s_perf.L" % n)[0]), D=float(prob.get_val("pt.%s_perf.D" % n)[0]),
        )
    return out
