"""Runners for the real OpenAeroStruct groups (AeroPoint, SpatialBeamAlone, AerostructPoint)."""
import numpy as np
import openmdao.api as om
from .core import quiet


def left_flag(mesh):
    return bool(abs(mesh[0, 0, 1]) > abs(mesh[0, -1, 1]))


def aero_surface(name, mesh, symmetry, **kw):
    s = dict(name=name, symmetry=symmetry, S_ref_type="wetted", mesh=np.array(mesh, dtype=float), CL0=0.0, CD0=0.0,
             k_lam=0.05, t_over_c_cp=np.array([0.12]), c_max_t=0.303, with_viscous=False, with_wave=False)
    s.update(kw)
    return s


def build_aero_point(surfaces, flow, compressible=False, rotational=False, meshes=None, user_sref=None):
    """flow: dict(alpha, beta, v, rho, Mach_number, re, cg, omega, height_agl); meshes: def_mesh per surface (default: surface mesh)"""
    from openaerostruct.aerodynamics.aero_groups import AeroPoint
    prob = om.Problem(reports=False)
    ivc = om.IndepVarComp()
    ivc.add_output("v", val=flow.get("v", 50.0), units="m/s")
    ivc.add_output("alpha", val=flow.get("alpha", 5.0), units="deg")
    ivc.add_output("beta", val=flow.get("beta", 0.0), units="deg")
    ivc.add_output("Mach_number", val=flow.get("Mach_number", 0.3))
    ivc.add_output("re", val=flow.get("re", 1.0e6), units="1/m")
    ivc.add_output("rho", val=flow.get("rho", 0.9), units="kg/m**3")
    ivc.add_output("cg", val=np.array(flow.get("cg", np.zeros(3)), dtype=float), units="m")
    if rotational:
        ivc.add_output("omega", val=np.array(flow.get("omega", np.zeros(3)), dtype=float), units="rad/s")
    ground = any(s.get("groundplane", False) for s in surfaces)
    if ground:
        ivc.add_output("height_agl", val=flow.get("height_agl", 8000.0), units="m")
    if user_sref is not None:
        ivc.add_output("S_ref_total", val=user_sref, units="m**2")
    for k, s in enumerate(surfaces):
        m = s["mesh"] if meshes is None else meshes[k]
        ivc.add_output(s["name"] + "_def_mesh", val=np.array(m, dtype=float), units="m")
        ivc.add_output(s["name"] + "_t_over_c", val=np.full(s["mesh"].shape[1] - 1, float(np.atleast_1d(s.get("t_over_c_cp", [0.12]))[0])))
    prob.model.add_subsystem("flow", ivc, promotes=["*"])
    prom = ["v", "alpha", "beta", "Mach_number", "re", "rho", "cg"]
    if rotational:
        prom.append("omega")
    if ground:
        prom.append("height_agl")
    if user_sref is not None:
        prom.append("S_ref_total")
    prob.model.add_subsystem("pt", AeroPoint(surfaces=surfaces, rotational=rotational, compressible=compressible,
                                             user_specified_Sref=user_sref is not None), promotes_inputs=prom)
    for s in surfaces:
        n = s["name"]
        prob.model.connect(n + "_def_mesh", ["pt." + n + ".def_mesh", "pt.aero_states." + n + "_def_mesh"])
        prob.model.connect(n + "_t_over_c", "pt." + n + "_perf.t_over_c")
    with quiet():
        prob.setup(force_alloc_complex=FORCE_COMPLEX)
    return prob


def run_aero_point(surfaces, flow, **kw):
    prob = build_aero_point(surfaces, flow, **kw)
    with quiet():
        prob.run_model()
    return prob


def aero_outputs(prob, surfaces):
    out = {"CL": float(prob.get_val("pt.CL")[0]), "CD": float(prob.get_val("pt.CD")[0]), "CM": np.array(prob.get_val("pt.CM")),
           "circulations": np.array(prob.get_val("pt.circulations")),
           "L": float(prob.get_val("pt.total_perf.L")[0]), "D": float(prob.get_val("pt.total_perf.D")[0]),
           "S_ref_total": float(prob.get_val("pt.total_perf.S_ref_total")[0])}
    for s in surfaces:
        n = s["name"]
        out[n] = dict(
            sec_forces=np.array(prob.get_val("pt.aero_states.%s_sec_forces" % n)),
            CL=float(prob.get_val("pt.%s_perf.CL" % n)[0]), CD=float(prob.get_val("pt.%s_perf.CD" % n)[0]),
            CDi=float(prob.get_val("pt.%s_perf.CDi" % n)[0]), CDv=float(prob.get_val("pt.%s_perf.CDv" % n)[0]),
            CDw=float(prob.get_val("pt.%s_perf.CDw" % n)[0]), S_ref=float(prob.get_val("pt.%s.S_ref" % n)[0]),
            L=float(prob.get_val("pt.%s_perf.L" % n)[0]), D=float(prob.get_val("pt.%s_perf.D" % n)[0]),
        )
    return out


def struct_surface(name, mesh, symmetry, fem="tube", **kw):
    s = dict(name=name, symmetry=symmetry, S_ref_type="wetted", fem_model_type=fem, mesh=np.array(mesh, dtype=float),
             E=70.0e9, G=30.0e9, mrho=3.0e3, fem_origin=0.35, wing_weight_ratio=2.0, struct_weight_relief=False,
             distributed_fuel_weight=False, exact_failure_constraint=False, thickness_cp=np.array([0.01, 0.02]),
             CL0=0.0, CD0=0.015, k_lam=0.05, t_over_c_cp=np.array([0.15]), c_max_t=0.303, with_viscous=True, with_wave=False)
    s["yield"] = 500.0e6 / 2.5
    s.update(kw)
    return s


def run_beam(surface, nodes, sec, loads):
    """real AssembleKGroup + SpatialBeamStates: returns disp[ny,6]"""
    from openaerostruct.structures.assemble_k_group import AssembleKGroup
    from openaerostruct.structures.spatial_beam_states import SpatialBeamStates
    prob = om.Problem(reports=False)
    ivc = om.IndepVarComp()
    ivc.add_output("nodes", val=nodes, units="m")
    for k in ("A", "Iy", "Iz", "J"):
        ivc.add_output(k, val=sec[k])
    ivc.add_output("loads", val=loads, units="N")
    prob.model.add_subsystem("ivc", ivc, promotes=["*"])
    prob.model.add_subsystem("k", AssembleKGroup(surface=surface), promotes=["*"])
    prob.model.add_subsystem("st", SpatialBeamStates(surface=surface), promotes=["*"])
    with quiet():
        prob.setup(); prob.run_model()
    return prob


FORCE_COMPLEX = False      # set by oracles that call check_partials (complex step needs complex vectors)
LBGS_MAXITER = 300
KRYLOV_PRECON = False     # with the LinearRunOnce preconditioner GMRES stagnates in forward mode on the unmodified code


def build_aerostruct(surfaces, flows, nonlinear="nlbgs", linear="direct", aitken=True, mode="auto", struct_surfaces=None,
                     compressible=False, rotational=False):
    """AerostructGeometry per surface + one AerostructPoint per flow (multipoint when several flows).  Tube or wingbox.
    flows: list of dicts(alpha, v, rho, Mach_number, re, load_factor, ...)"""
    from openaerostruct.integration.aerostruct_groups import AerostructGeometry, AerostructPoint
    from openaerostruct.utils.constants import grav_constant
    prob = om.Problem(reports=False)
    ivc = om.IndepVarComp()
    npts = len(flows)
    f0 = flows[0]
    ivc.add_output("CT", val=f0.get("CT", grav_constant * 17.0e-6), units="1/s")
    ivc.add_output("R", val=f0.get("R", 11.165e6), units="m")
    ivc.add_output("W0", val=f0.get("W0", 0.4 * 3e5), units="kg")
    ivc.add_output("empty_cg", val=np.array(f0.get("empty_cg", np.zeros(3))), units="m")
    if any(s.get("distributed_fuel_weight", False) for s in surfaces):
        ivc.add_output("fuel_mass", val=f0.get("fuel_mass", 8000.0), units="kg")
    for i, f in enumerate(flows):
        sfx = "" if npts == 1 else "_%d" % i
        ivc.add_output("v" + sfx, val=f.get("v", 248.136), units="m/s")
        ivc.add_output("alpha" + sfx, val=f.get("alpha", 5.0), units="deg")
        ivc.add_output("beta" + sfx, val=f.get("beta", 0.0), units="deg")
        ivc.add_output("Mach_number" + sfx, val=f.get("Mach_number", 0.84))
        ivc.add_output("re" + sfx, val=f.get("re", 1.0e6), units="1/m")
        ivc.add_output("rho" + sfx, val=f.get("rho", 0.38), units="kg/m**3")
        ivc.add_output("speed_of_sound" + sfx, val=f.get("speed_of_sound", 295.4), units="m/s")
        ivc.add_output("load_factor" + sfx, val=f.get("load_factor", 1.0))
        if rotational:
            ivc.add_output("omega" + sfx, val=np.array(f.get("omega", np.zeros(3)), dtype=float), units="rad/s")
            ivc.add_output("cg_rot" + sfx, val=np.array(f.get("cg_rot", np.zeros(3)), dtype=float), units="m")
        if any(s.get("groundplane", False) for s in surfaces):
            ivc.add_output("height_agl" + sfx, val=f.get("height_agl", 8000.0), units="m")
    prob.model.add_subsystem("prob_vars", ivc, promotes=["*"])
    for s in surfaces:
        prob.model.add_subsystem(s["name"], AerostructGeometry(surface=s))
    for i, f in enumerate(flows):
        sfx = "" if npts == 1 else "_%d" % i
        pn = "AS_point_%d" % i
        pt = AerostructPoint(surfaces=surfaces, compressible=compressible, rotational=rotational)
        prob.model.add_subsystem(pn, pt)
        if rotational:
            prob.model.connect("omega" + sfx, pn + ".coupled.aero_states.omega")
            prob.model.connect("cg_rot" + sfx, pn + ".coupled.aero_states.cg")
        if any(s.get("groundplane", False) for s in surfaces):
            prob.model.connect("height_agl" + sfx, pn + ".height_agl")
        for k in ("v", "alpha", "beta", "Mach_number", "re", "rho", "speed_of_sound", "load_factor"):
            prob.model.connect(k + sfx, pn + "." + k)
        if any(s.get("struct_weight_relief") or s.get("distributed_fuel_weight") or "n_point_masses" in s for s in surfaces):
            # the inertia-relief loads inside the coupled group take the load factor through a separate promotion
            prob.model.connect("load_factor" + sfx, pn + ".coupled.load_factor")
        for k in ("CT", "R", "W0", "empty_cg"):
            prob.model.connect(k, pn + "." + k)
        for s in surfaces:
            n = s["name"]; com = pn + "." + n + "_perf"
            prob.model.connect(n + ".local_stiff_transformed", pn + ".coupled." + n + ".local_stiff_transformed")
            prob.model.connect(n + ".nodes", pn + ".coupled." + n + ".nodes")
            prob.model.connect(n + ".mesh", pn + ".coupled." + n + ".mesh")
            prob.model.connect(n + ".nodes", com + ".nodes")
            prob.model.connect(n + ".cg_location", pn + ".total_perf." + n + "_cg_location")
            prob.model.connect(n + ".structural_mass", pn + ".total_perf." + n + "_structural_mass")
            prob.model.connect(n + ".t_over_c", com + ".t_over_c")
            if s["fem_model_type"] == "tube":
                prob.model.connect(n + ".radius", com + ".radius")
                prob.model.connect(n + ".thickness", com + ".thickness")
            else:
                for k in ("Qz", "J", "A_enc", "htop", "hbottom", "hfront", "hrear", "spar_thickness"):
                    prob.model.connect(n + "." + k, com + "." + k)
            if s.get("struct_weight_relief", False):
                prob.model.connect(n + ".element_mass", pn + ".coupled." + n + ".element_mass")
            if s.get("distributed_fuel_weight", False):
                prob.model.connect(n + ".struct_setup.fuel_vols", pn + ".coupled." + n + ".struct_states.fuel_vols")
                prob.model.connect("fuel_mass", pn + ".coupled." + n + ".struct_states.fuel_mass")
    with quiet():
        prob.setup(mode=mode, force_alloc_complex=FORCE_COMPLEX)
    for i in range(npts):
        coupled = getattr(prob.model, "AS_point_%d" % i).coupled
        if nonlinear == "newton":
            coupled.nonlinear_solver = om.NewtonSolver(solve_subsystems=True, maxiter=30, atol=1e-11, rtol=1e-13, iprint=-1)
            coupled.nonlinear_solver.linesearch = None
        else:
            coupled.nonlinear_solver = om.NonlinearBlockGS(use_aitken=aitken, maxiter=200, atol=1e-11, rtol=1e-13, iprint=-1)
        if linear == "lbgs":
            coupled.linear_solver = om.LinearBlockGS(maxiter=LBGS_MAXITER, atol=1e-12, rtol=1e-10, iprint=-1, err_on_non_converge=True, use_aitken=True)
        elif linear == "krylov":
            coupled.linear_solver = om.ScipyKrylov(maxiter=2000, atol=1e-12, rtol=1e-10, iprint=-1, err_on_non_converge=True, restart=200)
            coupled.linear_solver.precon = om.LinearRunOnce() if KRYLOV_PRECON else None
        else:
            coupled.linear_solver = om.DirectSolver(assemble_jac=True)
    return prob


def build_struct_alone(surface, loads=None):
    from openaerostruct.structures.struct_groups import SpatialBeamAlone
    prob = om.Problem(reports=False)
    ny = surface["mesh"].shape[1]
    ivc = om.IndepVarComp()
    ivc.add_output("loads", val=np.array(loads if loads is not None else np.ones((ny, 6)) * 2e5), units="N")
    ivc.add_output("load_factor", val=1.0)
    prob.model.add_subsystem("ivc", ivc, promotes=["*"])
    needs_lf = surface.get("struct_weight_relief") or surface.get("distributed_fuel_weight") or "n_point_masses" in surface
    prob.model.add_subsystem(surface["name"], SpatialBeamAlone(surface=surface), promotes_inputs=["load_factor"] if needs_lf else [])
    prob.model.connect("loads", surface["name"] + ".loads")
    with quiet():
        prob.setup(force_alloc_complex=FORCE_COMPLEX)
    return prob
