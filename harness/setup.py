"""MANIFEST.setup_cmd: regenerate every data file from /repo's current sources, then build the Lean project."""
import sys
from . import generate, leanbuild

info = generate.run(sorted(generate.GENERATORS))
print("generated:", info)
ok, log = leanbuild.lake_build()
print(log[-2000:])
sys.exit(0 if ok else 1)
