"""
Real-code oracles ("search"): each evaluates a property's own relation directly on OpenAeroStruct,
independently of the Lean model.  An oracle is a function  f(rng, tier) -> list of failures
for ONE randomly generated case; a failure is a dict(what=..., observed=..., required=..., case=...).
They are used (a) as a by-product check on every run (`relation_instances_checked`) and
(b) as the failing-input search when a proof obligation or a correspondence no longer checks.
"""
import numpy as np
from . import core, gen
from .core import comp_problem, quiet

ORACLES = {}


def oracle(prop, name):
    def deco(f):
        ORACLES.setdefault(prop, []).append((name, f))
        return f
    return deco


def relerr(a, b):
    a = np.asarray(a, dtype=float); b = np.asarray(b, dtype=float)
    s = max(np.max(np.abs(a)), np.max(np.abs(b)), 1e-300)
    return float(np.max(np.abs(a - b)) / s)


def _fail(what, observed, required, **case):
    return dict(what=what, observed=np.asarray(observed).tolist(), required=np.asarray(required).tolist(), case=case)


def _pick_size(rng, tier):
    sz = gen.sizes(tier)
    return sz[int(rng.integers(len(sz)))]


# ---------------------------------------------------------------------------------------
# C11
# ---------------------------------------------------------------------------------------
@oracle("C11", "load_transfer_conservation")
def c11_load_transfer(rng, tier):
    from openaerostruct.transfer.load_transfer import LoadTransfer
    nx, ny = _pick_size(rng, tier)
    sym = bool(rng.integers(2))
    s = gen.base_surface(rng, nx, ny, sym)
    F = rng.normal(size=(nx - 1, ny - 1, 3)) * 1e3
    mesh = s["mesh"]
    prob = comp_problem(LoadTransfer(surface=s), dict(def_mesh=mesh, sec_forces=F))
    loads = prob.get_val("loads")
    out = []
    tot = loads[:, :3].sum(axis=0)
    if relerr(tot, F.sum(axis=(0, 1))) > 1e-10:
        out.append(_fail("total nodal force != total panel force", tot, F.sum(axis=(0, 1)), nx=nx, ny=ny, symmetry=sym))
    w = s["fem_origin"]
    nodes = (1 - w) * mesh[0] + w * mesh[-1]
    qc = 0.75 * 0.5 * (mesh[:-1, :-1] + mesh[:-1, 1:]) + 0.25 * 0.5 * (mesh[1:, :-1] + mesh[1:, 1:])
    P = rng.normal(size=3) * 3
    m_nodal = loads[:, 3:].sum(axis=0) + np.cross(nodes - P, loads[:, :3]).sum(axis=0)
    m_panel = np.cross(qc - P, F).sum(axis=(0, 1))
    scale = max(np.abs(m_panel).max(), np.abs(F).max())
    if np.max(np.abs(m_nodal - m_panel)) > 1e-9 * scale:
        out.append(_fail("total nodal moment != total panel moment about a random point", m_nodal, m_panel,
                         nx=nx, ny=ny, symmetry=sym, point=P.tolist()))
    return out


@oracle("C11", "mesh_point_forces_conservation")
def c11_mesh_point_forces(rng, tier):
    from openaerostruct.aerodynamics.mesh_point_forces import MeshPointForces
    nx, ny = _pick_size(rng, tier)
    sym = bool(rng.integers(2))
    s = gen.base_surface(rng, nx, ny, sym)
    F = rng.normal(size=(nx - 1, ny - 1, 3)) * 1e3
    mesh = s["mesh"]
    prob = comp_problem(MeshPointForces(surfaces=[s]), {"wing_sec_forces": F})
    mpf = prob.get_val("wing_mesh_point_forces")
    out = []
    if relerr(mpf.sum(axis=(0, 1)), F.sum(axis=(0, 1))) > 1e-10:
        out.append(_fail("mesh-node forces do not sum to the panel forces", mpf.sum(axis=(0, 1)), F.sum(axis=(0, 1)),
                         nx=nx, ny=ny))
    qc = 0.75 * 0.5 * (mesh[:-1, :-1] + mesh[:-1, 1:]) + 0.25 * 0.5 * (mesh[1:, :-1] + mesh[1:, 1:])
    P = rng.normal(size=3) * 3
    m1 = np.cross(mesh - P, mpf).sum(axis=(0, 1))
    m2 = np.cross(qc - P, F).sum(axis=(0, 1))
    scale = max(np.abs(m2).max(), np.abs(F).max())
    if np.max(np.abs(m1 - m2)) > 1e-9 * scale:
        out.append(_fail("mesh-node force moment != panel force moment at quarter-chord points", m1, m2, nx=nx, ny=ny))
    return out


@oracle("C11", "displacement_transfer_rigid")
def c11_disp_transfer(rng, tier):
    from openaerostruct.transfer.displacement_transfer_group import DisplacementTransferGroup
    nx, ny = _pick_size(rng, tier)
    sym = bool(rng.integers(2))
    s = gen.base_surface(rng, nx, ny, sym)
    mesh = s["mesh"]
    w = s["fem_origin"]
    nodes = (1 - w) * mesh[0] + w * mesh[-1]
    out = []

    def run(disp):
        prob = comp_problem(DisplacementTransferGroup(surface=s), dict(mesh=mesh, nodes=nodes, disp=disp))
        return np.array(prob.get_val("def_mesh"))

    d0 = run(np.zeros((ny, 6)))
    if not np.array_equal(d0, mesh):
        out.append(_fail("zero displacement changes the mesh", d0, mesh, nx=nx, ny=ny))
    t = rng.normal(size=3)
    disp = np.zeros((ny, 6)); disp[:, :3] = t
    d1 = run(disp)
    if relerr(d1, mesh + t) > 1e-13:
        out.append(_fail("pure translation is not an exact translation", d1, mesh + t, nx=nx, ny=ny, t=t.tolist()))
    # first-order rotation: error must shrink quadratically
    a = rng.normal(size=(ny, 3))
    errs = []
    for eps in (1e-3, 1e-4):
        disp = np.zeros((ny, 6)); disp[:, 3:] = eps * a
        d = run(disp)
        lin = mesh + np.cross(eps * a[None, :, :], mesh - nodes[None, :, :])
        errs.append(np.max(np.abs(d - lin)))
    arm = np.max(np.abs(mesh - nodes[None])) * np.max(np.abs(a)) ** 2
    if errs[0] > 5 * (1e-3) ** 2 * arm + 1e-13 or errs[1] > 5 * (1e-4) ** 2 * arm + 1e-13:
        out.append(_fail("rotation is not a first-order rigid rotation about the structural node", errs,
                         [5e-6 * arm, 5e-8 * arm], nx=nx, ny=ny))
    return out


class Discard(Exception):
    """raised by an oracle when the generated case is outside the property's quantifier"""
