"""
Real-code oracles ("search"): each evaluates a property's own relation directly on OpenAeroStruct,
independently of the Lean model.  An oracle is a function  f(rng, tier) -> list of failures
for ONE randomly generated case; a failure is a dict(what=..., observed=..., required=..., case=...).
They are used (a) as a by-product check on every run (`relation_instances_checked`) and
(b) as the failing-input search when a proof obligation or a correspondence no longer checks.
"""
import numpy as np
from . import core, gen
from .core import comp_problem, quiet

ORACLES = {}
CURRENT_K = 0      # index of the oracle case being run (set by check.py; used for deterministic variant cycling)


def oracle(prop, name):
    def deco(f):
        ORACLES.setdefault(prop, []).append((name, f))
        return f
    return deco


def relerr(a, b):
    a = np.asarray(a, dtype=float); b = np.asarray(b, dtype=float)
    s = max(np.max(np.abs(a)), np.max(np.abs(b)), 1e-300)
    return float(np.max(np.abs(a - b)) / s)


def _fail(what, observed, required, **case):
    return dict(what=what, observed=np.asarray(observed).tolist(), required=np.asarray(required).tolist(), case=case)


def _pick_size(rng, tier):
    sz = gen.sizes(tier)
    return sz[int(rng.integers(len(sz)))]


# ---------------------------------------------------------------------------------------
# C11
# ---------------------------------------------------------------------------------------
@oracle("C11", "load_transfer_conservation")
def c11_load_transfer(rng, tier):
    from openaerostruct.transfer.load_transfer import LoadTransfer
    nx, ny = _pick_size(rng, tier)
    sym = bool(rng.integers(2))
    s = gen.base_surface(rng, nx, ny, sym)
    F = rng.normal(size=(nx - 1, ny - 1, 3)) * 1e3
    mesh = s["mesh"]
    prob = comp_problem(LoadTransfer(surface=s), dict(def_mesh=mesh, sec_forces=F))
    loads = prob.get_val("loads")
    out = []
    tot = loads[:, :3].sum(axis=0)
    if relerr(tot, F.sum(axis=(0, 1))) > 1e-10:
        out.append(_fail("total nodal force != total panel force", tot, F.sum(axis=(0, 1)), nx=nx, ny=ny, symmetry=sym))
    w = s["fem_origin"]
    nodes = (1 - w) * mesh[0] + w * mesh[-1]
    qc = 0.75 * 0.5 * (mesh[:-1, :-1] + mesh[:-1, 1:]) + 0.25 * 0.5 * (mesh[1:, :-1] + mesh[1:, 1:])
    P = rng.normal(size=3) * 3
    m_nodal = loads[:, 3:].sum(axis=0) + np.cross(nodes - P, loads[:, :3]).sum(axis=0)
    m_panel = np.cross(qc - P, F).sum(axis=(0, 1))
    scale = max(np.abs(m_panel).max(), np.abs(F).max())
    if np.max(np.abs(m_nodal - m_panel)) > 1e-9 * scale:
        out.append(_fail("total nodal moment != total panel moment about a random point", m_nodal, m_panel,
                         nx=nx, ny=ny, symmetry=sym, point=P.tolist()))
    return out


@oracle("C11", "mesh_point_forces_conservation")
def c11_mesh_point_forces(rng, tier):
    from openaerostruct.aerodynamics.mesh_point_forces import MeshPointForces
    nx, ny = _pick_size(rng, tier)
    sym = bool(rng.integers(2))
    s = gen.base_surface(rng, nx, ny, sym)
    F = rng.normal(size=(nx - 1, ny - 1, 3)) * 1e3
    mesh = s["mesh"]
    prob = comp_problem(MeshPointForces(surfaces=[s]), {"wing_sec_forces": F})
    mpf = prob.get_val("wing_mesh_point_forces")
    out = []
    if relerr(mpf.sum(axis=(0, 1)), F.sum(axis=(0, 1))) > 1e-10:
        out.append(_fail("mesh-node forces do not sum to the panel forces", mpf.sum(axis=(0, 1)), F.sum(axis=(0, 1)),
                         nx=nx, ny=ny))
    qc = 0.75 * 0.5 * (mesh[:-1, :-1] + mesh[:-1, 1:]) + 0.25 * 0.5 * (mesh[1:, :-1] + mesh[1:, 1:])
    P = rng.normal(size=3) * 3
    m1 = np.cross(mesh - P, mpf).sum(axis=(0, 1))
    m2 = np.cross(qc - P, F).sum(axis=(0, 1))
    scale = max(np.abs(m2).max(), np.abs(F).max())
    if np.max(np.abs(m1 - m2)) > 1e-9 * scale:
        out.append(_fail("mesh-node force moment != panel force moment at quarter-chord points", m1, m2, nx=nx, ny=ny))
    return out


@oracle("C11", "displacement_transfer_rigid")
def c11_disp_transfer(rng, tier):
    from openaerostruct.transfer.displacement_transfer_group import DisplacementTransferGroup
    nx, ny = _pick_size(rng, tier)
    sym = bool(rng.integers(2))
    s = gen.base_surface(rng, nx, ny, sym)
    mesh = s["mesh"]
    w = s["fem_origin"]
    nodes = (1 - w) * mesh[0] + w * mesh[-1]
    out = []

    def run(disp):
        prob = comp_problem(DisplacementTransferGroup(surface=s), dict(mesh=mesh, nodes=nodes, disp=disp))
        return np.array(prob.get_val("def_mesh"))

    d0 = run(np.zeros((ny, 6)))
    if not np.array_equal(d0, mesh):
        out.append(_fail("zero displacement changes the mesh", d0, mesh, nx=nx, ny=ny))
    t = rng.normal(size=3)
    disp = np.zeros((ny, 6)); disp[:, :3] = t
    d1 = run(disp)
    if relerr(d1, mesh + t) > 1e-13:
        out.append(_fail("pure translation is not an exact translation", d1, mesh + t, nx=nx, ny=ny, t=t.tolist()))
    # first-order rotation: error must shrink quadratically
    a = rng.normal(size=(ny, 3))
    errs = []
    for eps in (1e-3, 1e-4):
        disp = np.zeros((ny, 6)); disp[:, 3:] = eps * a
        d = run(disp)
        lin = mesh + np.cross(eps * a[None, :, :], mesh - nodes[None, :, :])
        errs.append(np.max(np.abs(d - lin)))
    arm = np.max(np.abs(mesh - nodes[None])) * np.max(np.abs(a)) ** 2
    if errs[0] > 5 * (1e-3) ** 2 * arm + 1e-13 or errs[1] > 5 * (1e-4) ** 2 * arm + 1e-13:
        out.append(_fail("rotation is not a first-order rigid rotation about the structural node", errs,
                         [5e-6 * arm, 5e-8 * arm], nx=nx, ny=ny))
    return out


# ---------------------------------------------------------------------------------------
# C16
# ---------------------------------------------------------------------------------------
G = 9.80665


def _nodes_of(s):
    m = s["mesh"]; w = s["fem_origin"]
    return (1 - w) * m[0] + w * m[-1]


@oracle("C16", "mass_cg")
def c16_mass_cg(rng, tier):
    from openaerostruct.structures.weight import Weight
    from openaerostruct.structures.structural_cg import StructuralCG
    nx, ny = _pick_size(rng, tier)
    sym = bool(rng.integers(2))
    s = gen.base_surface(rng, nx, ny, sym)
    nodes = _nodes_of(s)
    A = rng.uniform(1e-3, 5e-2, size=ny - 1)
    p = comp_problem(Weight(surface=s), dict(A=A, nodes=nodes))
    sm = float(p.get_val("structural_mass")[0]); em = np.array(p.get_val("element_mass"))
    L = np.linalg.norm(nodes[1:] - nodes[:-1], axis=1)
    req = s["mrho"] * s["wing_weight_ratio"] * np.sum(A * L) * (2 if sym else 1)
    out = []
    if abs(sm - req) > 1e-10 * abs(req):
        out.append(_fail("structural mass != rho*wwr*sum(A L) (x2 if symmetric)", sm, req, ny=ny, symmetry=sym))
    p2 = comp_problem(StructuralCG(surface=s), dict(nodes=nodes, structural_mass=sm, element_mass=em))
    cg = np.array(p2.get_val("cg_location"))
    mid = 0.5 * (nodes[1:] + nodes[:-1])
    cen = (mid * em[:, None]).sum(axis=0) / em.sum()
    if sym:
        cen[1] = 0.0
    if np.max(np.abs(cg - cen)) > 1e-10 * max(np.abs(cen).max(), 1.0):
        out.append(_fail("cg is not the mass-weighted centroid", cg, cen, ny=ny, symmetry=sym))
    return out


def _check_loads(out, what, loads, nodes, F_req, M_req, **case):
    F = loads[:, :3].sum(axis=0)
    M = loads[:, 3:].sum(axis=0) + np.cross(nodes, loads[:, :3]).sum(axis=0)
    fs = max(np.abs(F_req).max(), 1e-30)
    if np.max(np.abs(F - F_req)) > 1e-9 * fs:
        out.append(_fail(what + ": total force", F, F_req, **case))
    ms = max(np.abs(M_req).max(), fs)
    if np.max(np.abs(M - M_req)) > 1e-8 * ms:
        out.append(_fail(what + ": total moment about the origin", M, M_req, **case))


@oracle("C16", "distributed_loads")
def c16_distributed(rng, tier):
    from openaerostruct.structures.wing_weight_loads import StructureWeightLoads
    from openaerostruct.structures.fuel_loads import FuelLoads
    from openaerostruct.structures.wingbox_fuel_vol_delta import WingboxFuelVolDelta
    nx, ny = _pick_size(rng, tier)
    sym = bool(rng.integers(2))
    s = gen.base_surface(rng, nx, ny, sym)
    s["Wf_reserve"] = float(rng.uniform(0, 2000.0)); s["fuel_density"] = float(rng.uniform(700, 850))
    nodes = _nodes_of(s)
    mid = 0.5 * (nodes[1:] + nodes[:-1])
    em = rng.uniform(1.0, 50.0, size=ny - 1)
    lf = float(rng.uniform(0.5, 2.5))
    out = []
    p = comp_problem(StructureWeightLoads(surface=s), dict(element_mass=em, nodes=nodes, load_factor=lf))
    W = em * G * lf
    Fe = np.zeros((ny - 1, 3)); Fe[:, 2] = -W
    _check_loads(out, "structural weight loads", np.array(p.get_val("struct_weight_loads")), nodes,
                 Fe.sum(axis=0), np.cross(mid, Fe).sum(axis=0), ny=ny, symmetry=sym)
    # from airliner tanks down to the few litres of a small UAV
    scale = float(10 ** rng.uniform(-4.5, 0)) if rng.uniform() < 0.5 else 1.0
    vols = rng.uniform(0.1, 2.0, size=ny - 1) * scale
    fm = float(rng.uniform(1e3, 3e4)) * scale
    s["Wf_reserve"] *= scale
    p = comp_problem(FuelLoads(surface=s), dict(nodes=nodes, fuel_vols=vols, fuel_mass=fm, load_factor=lf))
    fw = (fm + s["Wf_reserve"]) * G * lf / (2 if sym else 1)
    Fe = np.zeros((ny - 1, 3)); Fe[:, 2] = -fw * vols / vols.sum()
    _check_loads(out, "fuel weight loads", np.array(p.get_val("fuel_weight_loads")), nodes,
                 Fe.sum(axis=0), np.cross(mid, Fe).sum(axis=0), ny=ny, symmetry=sym)
    p = comp_problem(WingboxFuelVolDelta(surface=s), dict(fuelburn=fm, fuel_vols=vols))
    req = vols.sum() - (fm + s["Wf_reserve"]) / (2 if sym else 1) / s["fuel_density"]
    got = float(p.get_val("fuel_vol_delta")[0])
    if abs(got - req) > 1e-10 * max(abs(req), vols.sum()):
        out.append(_fail("fuel volume margin != enclosed volume - required fuel volume", got, req, ny=ny, symmetry=sym))
    return out


@oracle("C16", "point_loads")
def c16_point_loads(rng, tier):
    from openaerostruct.structures.compute_point_mass_loads import ComputePointMassLoads
    from openaerostruct.structures.compute_thrust_loads import ComputeThrustLoads
    from openaerostruct.structures.total_loads import TotalLoads
    nx, ny = _pick_size(rng, tier)
    sym = bool(rng.integers(2))
    s = gen.base_surface(rng, nx, ny, sym)
    npm = int(rng.integers(1, 4)); s["n_point_masses"] = npm
    nodes = _nodes_of(s)
    locs = np.array([nodes[rng.integers(ny)] + rng.normal(size=3) * np.array([0.5, 0.4, 0.3]) for _ in range(npm)])
    masses = rng.uniform(100, 5000, size=npm); thr = rng.uniform(1e3, 1e5, size=npm)
    lf = float(rng.uniform(0.5, 2.5))
    out = []
    p = comp_problem(ComputePointMassLoads(surface=s), dict(point_mass_locations=locs, point_masses=masses, nodes=nodes, load_factor=lf))
    Fp = np.zeros((npm, 3)); Fp[:, 2] = -masses * G * lf
    pml = np.array(p.get_val("loads_from_point_masses"))
    _check_loads(out, "point-mass loads", pml, nodes, Fp.sum(axis=0), np.cross(locs, Fp).sum(axis=0), ny=ny, n=npm)
    w = np.array(p.get_val("nodal_weightings"))
    if np.max(np.abs(w.sum(axis=1) - 1)) > 1e-12:
        out.append(_fail("nodal weightings do not sum to 1", w.sum(axis=1), np.ones(npm), ny=ny))
    p = comp_problem(ComputeThrustLoads(surface=s), dict(point_mass_locations=locs, engine_thrusts=thr, nodes=nodes))
    Ft = np.zeros((npm, 3)); Ft[:, 0] = -thr
    tl = np.array(p.get_val("loads_from_thrusts"))
    _check_loads(out, "thrust loads", tl, nodes, Ft.sum(axis=0), np.cross(locs, Ft).sum(axis=0), ny=ny, n=npm)
    relief, fuel = bool(rng.integers(2)), bool(rng.integers(2))
    s["struct_weight_relief"] = relief; s["distributed_fuel_weight"] = fuel
    inp = dict(loads=rng.normal(size=(ny, 6)) * 1e3, loads_from_point_masses=pml, loads_from_thrusts=tl)
    req = inp["loads"] + pml + tl
    if relief:
        inp["struct_weight_loads"] = rng.normal(size=(ny, 6)) * 1e3; req = req + inp["struct_weight_loads"]
    if fuel:
        inp["fuel_weight_loads"] = rng.normal(size=(ny, 6)) * 1e3; req = req + inp["fuel_weight_loads"]
    p = comp_problem(TotalLoads(surface=s), inp)
    got = np.array(p.get_val("total_loads"))
    if relerr(got, req) > 1e-13:
        out.append(_fail("total loads != sum of enabled sources", got, req, ny=ny, relief=relief, fuel=fuel))
    return out


# ---------------------------------------------------------------------------------------
# C15
# ---------------------------------------------------------------------------------------
@oracle("C15", "ks_bounds")
def c15_ks(rng, tier):
    from openaerostruct.structures.failure_ks import FailureKS
    from openaerostruct.structures.failure_exact import FailureExact
    nx, ny = _pick_size(rng, tier)
    fem = "tube" if rng.integers(2) else "wingbox"
    s = gen.base_surface(rng, nx, ny, bool(rng.integers(2)), fem=fem)
    nc = 2 if fem == "tube" else 4
    rho = float(rng.choice([1.0, 10.0, 100.0, 1000.0]))
    mag = 10 ** rng.uniform(0, 12)
    vm = rng.uniform(0, 1, size=(ny - 1, nc)) * mag
    if rng.uniform() < 0.2:
        vm[:] = vm.flat[0]      # all equal: KS = max + ln N / rho exactly
    p = comp_problem(FailureKS(surface=s, rho=rho), dict(vonmises=vm))
    ks = float(p.get_val("failure")[0])
    fmax = float(np.max(vm / s["yield"] - 1))
    N = vm.size
    out = []
    tol = 1e-12 * max(1.0, abs(fmax))
    if not np.isfinite(ks):
        out.append(_fail("KS failure is not finite", ks, fmax, N=N, rho=rho, magnitude=mag))
    elif ks < fmax - tol or ks > fmax + np.log(N) / rho + tol:
        out.append(_fail("KS outside [max, max + ln N / rho]", ks, [fmax, fmax + np.log(N) / rho], N=N, rho=rho, magnitude=mag))
    p = comp_problem(FailureExact(surface=s), dict(vonmises=vm))
    fe = np.array(p.get_val("failure"))
    if relerr(fe, vm / s["yield"] - 1) > 1e-14:
        out.append(_fail("exact failure != stress/allowable - 1", fe, vm / s["yield"] - 1, N=N))
    return out


def _vm_tube(s, nodes, radius, disp):
    from openaerostruct.structures.vonmises_tube import VonMisesTube
    p = comp_problem(VonMisesTube(surface=s), dict(nodes=nodes, radius=radius, disp=disp))
    return np.array(p.get_val("vonmises"))


def _wb_inputs(rng, ne):
    return dict(Qz=rng.uniform(1e-3, 1e-2, size=ne), J=rng.uniform(1e-3, 1e-2, size=ne), A_enc=rng.uniform(0.1, 0.6, size=ne),
                spar_thickness=rng.uniform(2e-3, 2e-2, size=ne), htop=rng.uniform(0.05, 0.3, size=ne),
                hbottom=rng.uniform(0.05, 0.3, size=ne), hfront=rng.uniform(0.2, 0.8, size=ne), hrear=rng.uniform(0.2, 0.8, size=ne))


def _vm_wingbox(s, nodes, wb, disp):
    from openaerostruct.structures.vonmises_wingbox import VonMisesWingbox
    p = comp_problem(VonMisesWingbox(surface=s), dict(nodes=nodes, disp=disp, **wb))
    return np.array(p.get_val("vonmises"))


@oracle("C15", "wingbox_section_invariants")
def c15_wingbox_section(rng, tier):
    """relations the section properties of a wingbox element obey whatever the airfoil data: geometric similarity (all lengths
    scaled by k), the upside-down section (top and bottom exchanged), a symmetric section (neutral axis on the chord line), and
    refinement of the airfoil polygon by collinear points (the polygon, hence every integral over it, is unchanged)"""
    from openaerostruct.structures.section_properties_wingbox import SectionPropertiesWingbox
    from .specs import _airfoil
    nx, ny = _pick_size(rng, tier)
    s = gen.base_surface(rng, nx, ny, bool(rng.integers(2)), fem="wingbox")
    wb = _airfoil(rng)
    ne = ny - 1
    sc = rng.uniform(1.0, 6.0, size=ne)
    inp = dict(streamwise_chords=sc, fem_chords=sc * rng.uniform(0.75, 1.0, size=ne),
               fem_twists=rng.choice([0.0, 1.0]) * rng.uniform(-0.12, 0.12, size=ne),
               spar_thickness=rng.uniform(3e-3, 2e-2, size=ne), skin_thickness=rng.uniform(3e-3, 2e-2, size=ne),
               t_over_c=rng.uniform(0.08, 0.16, size=ne))
    names = ["A", "A_enc", "A_int", "Iy", "Qz", "Iz", "J", "htop", "hbottom", "hfront", "hrear"]

    def run(wbd, inputs):
        sd = dict(s); sd.update(wbd)
        pr = comp_problem(SectionPropertiesWingbox(surface=sd), inputs)
        return {k: np.array(pr.get_val(k), dtype=float) for k in names}

    out = []
    base = run(wb, inp)
    # 1. geometric similarity
    k = float(rng.uniform(0.3, 3.0))
    sim = dict(inp)
    for key in ("streamwise_chords", "fem_chords", "spar_thickness", "skin_thickness"):
        sim[key] = inp[key] * k
    r = run(wb, sim)
    for key, pw in (("A", 2), ("A_enc", 2), ("A_int", 2), ("Qz", 3), ("Iy", 4), ("Iz", 4), ("J", 4), ("hfront", 1), ("hrear", 1)):
        if relerr(r[key], k ** pw * base[key]) > 1e-9:
            out.append(_fail("section property %s does not scale with k^%d under geometric similarity" % (key, pw), r[key], k ** pw * base[key], k=k))
    # 2. upside-down section (untwisted): top and bottom exchange their roles
    flat = dict(inp); flat["fem_twists"] = np.zeros(ne)
    b0 = run(wb, flat)
    ud = dict(wb); ud["data_y_upper"] = -wb["data_y_lower"]; ud["data_y_lower"] = -wb["data_y_upper"]
    r = run(ud, flat)
    for key in ("A", "A_enc", "A_int", "Iy", "Iz", "J", "hfront", "hrear"):
        if relerr(r[key], b0[key]) > 1e-9:
            out.append(_fail("section property %s changes when the section is turned upside down" % key, r[key], b0[key]))
    if relerr(r["htop"], b0["hbottom"]) > 1e-9 or relerr(r["hbottom"], b0["htop"]) > 1e-9:
        out.append(_fail("htop / hbottom are not exchanged when the section is turned upside down", [r["htop"], r["hbottom"]], [b0["hbottom"], b0["htop"]]))
    # 3. symmetric section: neutral axis on the chord line
    symd = dict(wb); symd["data_y_lower"] = -wb["data_y_upper"]
    r = run(symd, flat)
    if relerr(r["htop"], r["hbottom"]) > 1e-9:
        out.append(_fail("symmetric untwisted section: htop != hbottom", r["htop"], r["hbottom"]))
    # 4. collinear refinement of the polygon (mid-points inserted on every segment of both skins)
    def refine(v):
        v = np.asarray(v, dtype=float); m = 0.5 * (v[:-1] + v[1:])
        o = np.empty(2 * v.size - 1); o[0::2] = v; o[1::2] = m
        return o
    ref = {kk: (refine(vv) if kk.startswith("data_") else vv) for kk, vv in wb.items()}
    r = run(ref, inp)
    # (Iz is not in this list: the strip formula of the code is an approximation by the authors, not the exact integral over the
    #  segment, so it is not additive under subdivision; the property takes the section properties as given)
    for key in ("A", "A_enc", "A_int", "Iy", "Qz", "J", "hfront", "hrear"):
        if relerr(r[key], base[key]) > 1e-9:
            out.append(_fail("section property %s changes when collinear points are inserted into the airfoil polygon" % key, r[key], base[key]))
    return out


@oracle("C15", "von_mises_invariants")
def c15_vm(rng, tier):
    nx, ny = _pick_size(rng, tier)
    sym = bool(rng.integers(2))
    s = gen.base_surface(rng, nx, ny, sym)
    s["strength_factor_for_upper_skin"] = 1.0
    nodes = _nodes_of(s)
    radius = rng.uniform(0.05, 0.4, size=ny - 1)
    wb = _wb_inputs(rng, ny - 1)
    disp = rng.normal(size=(ny, 6)) * 0.05; disp[:, 3:] *= 0.2
    out = []
    E = s["E"]
    scale = E * 0.05 / np.min(np.linalg.norm(nodes[1:] - nodes[:-1], axis=1))
    for name, f in (("tube", lambda d: _vm_tube(s, nodes, radius, d)), ("wingbox", lambda d: _vm_wingbox(s, nodes, wb, d))):
        v = f(disp)
        if np.any(v < 0) or not np.all(np.isfinite(v)):
            out.append(_fail(name + ": von Mises negative or not finite", v, 0, ny=ny))
        k = float(rng.uniform(0.2, 5.0))
        vk = f(k * disp)
        if relerr(vk, k * v) > 1e-9:
            out.append(_fail(name + ": vm(k disp) != k vm(disp)", vk, k * v, ny=ny, k=k))
        # rigid-body motion (linearised): u = t + theta x (P - c), r = theta
        theta = rng.normal(size=3) * 1e-2; t = rng.normal(size=3) * 0.1; c = rng.normal(size=3)
        rigid = np.zeros((ny, 6)); rigid[:, :3] = t + np.cross(theta, nodes - c); rigid[:, 3:] = theta
        v0 = f(rigid)
        # tolerance: round-off of stresses of the size produced by the individual terms
        if np.max(np.abs(v0)) > 1e-9 * scale * 10:
            out.append(_fail(name + ": rigid-body motion gives non-zero stress", np.max(np.abs(v0)), 0.0, ny=ny))
    # wingbox: `strength_factor_for_upper_skin` (documented: the yield stress of the upper skin is that factor times `yield`) divides
    # exactly the two combinations evaluated against the upper-skin allowable (0 and 3) and nothing else; and under pure axial
    # stretch of a straight element every combination is the closed-form E du / L over its own allowable factor
    fac = float(rng.choice([0.8, 1.25, 1.5, 2.0]))
    sf = dict(s); sf["strength_factor_for_upper_skin"] = fac
    v1 = _vm_wingbox(s, nodes, wb, disp); vf = _vm_wingbox(sf, nodes, wb, disp)
    req = v1.copy(); req[:, [0, 3]] /= fac
    if relerr(vf, req) > 1e-10:
        out.append(_fail("wingbox: von Mises with strength_factor_for_upper_skin = f is not the factor-1 result with the upper-skin "
                         "combinations (0, 3) divided by f", vf[0], req[0], ny=ny, factor=fac))
    Lw = float(rng.uniform(0.5, 2.0)); nodes_w = np.zeros((2, 3)); nodes_w[1, 1] = Lw
    sw_ = dict(sf); sw_["mesh"] = np.zeros((2, 2, 3))
    dw = np.zeros((2, 6)); dw[1, 1] = 1e-3
    vw = _vm_wingbox(sw_, nodes_w, _wb_inputs(rng, 1), dw)
    reqw = np.full((1, 4), E * 1e-3 / Lw); reqw[:, [0, 3]] /= fac
    if relerr(vw, reqw) > 1e-10:
        out.append(_fail("wingbox: axial stress of a straight element != E du / L (over the strength factor for the upper-skin combinations)",
                         vw[0], reqw[0], factor=fac))
    # closed forms on a straight beam along y
    L = float(rng.uniform(0.5, 2.0)); r = float(rng.uniform(0.05, 0.3))
    nodes2 = np.zeros((2, 3)); nodes2[1, 1] = L
    s2 = dict(s); s2["mesh"] = np.zeros((2, 2, 3))
    d = np.zeros((2, 6)); delta = 1e-3
    d[1, 1] = delta      # axial stretch along the element
    v = _vm_tube(s2, nodes2, np.array([r]), d)
    if relerr(v, np.full((1, 2), E * delta / L)) > 1e-12:
        out.append(_fail("tube axial stress != E du / L", v, E * delta / L))
    d = np.zeros((2, 6)); d[1, 4] = 2e-3     # twist about the element axis (global y)
    v = _vm_tube(s2, nodes2, np.array([r]), d)
    req = np.sqrt(3.0) * s["G"] * r * 2e-3 / L
    if relerr(v, np.full((1, 2), req)) > 1e-12:
        out.append(_fail("tube torsion stress != sqrt(3) G r dtheta / L", v, req))
    d = np.zeros((2, 6)); d[1, 3] = 3e-3     # bending rotation difference about global x
    v = _vm_tube(s2, nodes2, np.array([r]), d)
    req = E * r * 3e-3 / L
    if relerr(v, np.full((1, 2), req)) > 1e-12:
        out.append(_fail("tube bending stress != E r dkappa", v, req))
    # the same closed forms on elements with sweep and dihedral (any orientation that is not along the global x axis)
    for _ in range(4):
        sw = np.radians(rng.uniform(-40, 60)); dh = np.radians(rng.uniform(-10, 20)) * float(rng.integers(2))
        e = np.array([np.sin(sw) * np.cos(dh), np.cos(sw) * np.cos(dh), np.sin(dh)]); e /= np.linalg.norm(e)
        n0 = np.cross(e, np.array([1.0, 0.0, 0.0])); n0 /= np.linalg.norm(n0)
        n1 = np.cross(e, n0)
        ang = rng.uniform(0, 2 * np.pi); nb = np.cos(ang) * n0 + np.sin(ang) * n1        # any direction normal to the element
        P0 = rng.normal(size=3); nodes3 = np.array([P0, P0 + L * e])
        case = dict(sweep_deg=float(np.degrees(sw)), dihedral_deg=float(np.degrees(dh)))
        d = np.zeros((2, 6)); d[1, :3] = delta * e
        v = _vm_tube(s2, nodes3, np.array([r]), d)
        if not np.all(np.isfinite(v)) or relerr(v, np.full((1, 2), E * delta / L)) > 1e-10:
            out.append(_fail("tube axial stress != E du / L on a swept element", v, E * delta / L, **case))
        th = 2e-3
        d = np.zeros((2, 6)); d[1, 3:] = th * e
        v = _vm_tube(s2, nodes3, np.array([r]), d)
        req = np.sqrt(3.0) * s["G"] * r * th / L
        if not np.all(np.isfinite(v)) or relerr(v, np.full((1, 2), req)) > 1e-10:
            out.append(_fail("tube torsion stress != sqrt(3) G r dtheta / L on a swept element (pure torsion)", v, req, **case))
        d = np.zeros((2, 6)); d[1, 3:] = th * e; d[1, :3] = delta * e
        v = _vm_tube(s2, nodes3, np.array([r]), d)
        req = np.sqrt((E * delta / L) ** 2 + 3.0 * (s["G"] * r * th / L) ** 2)
        if not np.all(np.isfinite(v)) or relerr(v, np.full((1, 2), req)) > 1e-10:
            out.append(_fail("tube stress under torsion plus axial load != sqrt(sigma^2 + 3 tau^2) on a swept element", v, req, **case))
        d = np.zeros((2, 6)); d[1, 3:] = 3e-3 * nb
        v = _vm_tube(s2, nodes3, np.array([r]), d)
        req = E * r * 3e-3 / L
        if not np.all(np.isfinite(v)) or relerr(v, np.full((1, 2), req)) > 1e-10:
            out.append(_fail("tube bending stress != E r dkappa on a swept element", v, req, **case))
    return out


# ---------------------------------------------------------------------------------------
# C17
# ---------------------------------------------------------------------------------------
@oracle("C17", "functional_identities")
def c17_functionals(rng, tier):
    from openaerostruct.functionals.total_lift_drag import TotalLiftDrag
    from openaerostruct.functionals.equilibrium import Equilibrium
    from openaerostruct.functionals.breguet_range import BreguetRange
    from openaerostruct.functionals.center_of_gravity import CenterOfGravity
    from openaerostruct.functionals.sum_areas import SumAreas
    ns = int(rng.integers(1, 4))
    ss = [gen.base_surface(rng, 2, 3, True, name="s%d" % k) for k in range(ns)]
    CL = rng.uniform(-0.3, 1.0, size=ns); CD = rng.uniform(0.005, 0.06, size=ns); S = rng.uniform(5, 300, size=ns)
    rho = float(rng.uniform(0.2, 1.3)); v = float(rng.uniform(20, 260))
    user_sref = bool(rng.integers(2))
    out = []
    p = comp_problem(SumAreas(surfaces=ss), {"s%d_S_ref" % k: S[k] for k in range(ns)})
    Stot = float(p.get_val("S_ref_total")[0])
    if abs(Stot - S.sum()) > 1e-12 * S.sum():
        out.append(_fail("S_ref_total != sum of areas", Stot, S.sum(), ns=ns))
    if user_sref:
        Stot = float(rng.uniform(50, 500))
    inp = {"S_ref_total": Stot, "rho": rho, "v": v}
    for k in range(ns):
        inp.update({"s%d_CL" % k: CL[k], "s%d_CD" % k: CD[k], "s%d_S_ref" % k: S[k]})
    p = comp_problem(TotalLiftDrag(surfaces=ss), inp)
    q = 0.5 * rho * v * v
    got = [float(p.get_val(n)[0]) for n in ("CL", "CD", "L", "D")]
    req = [np.sum(CL * S) / Stot, np.sum(CD * S) / Stot, q * np.sum(CL * S), q * np.sum(CD * S)]
    if relerr(got, req) > 1e-12 or abs(got[2] - q * Stot * got[0]) > 1e-10 * abs(got[2]):
        out.append(_fail("aircraft CL/CD/L/D are not the area-weighted sums / q S C", got, req, ns=ns))
    sm = rng.uniform(100, 2e4, size=ns); fb = float(rng.uniform(1e3, 1e5)); W0 = float(rng.uniform(1e3, 2e5)); lf = float(rng.uniform(0.5, 2.5))
    inp = {"fuelburn": fb, "W0": W0, "load_factor": lf, "CL": got[0], "S_ref_total": Stot, "v": v, "rho": rho}
    inp.update({"s%d_structural_mass" % k: sm[k] for k in range(ns)})
    p = comp_problem(Equilibrium(surfaces=ss), inp)
    W = (sm.sum() + fb + W0) * G * lf
    got2 = [float(p.get_val("total_weight")[0]), float(p.get_val("L_equals_W")[0])]
    req2 = [W, 1 - q * Stot * got[0] / W]
    if relerr(got2[:1], req2[:1]) > 1e-12 or abs(got2[1] - req2[1]) > 1e-11:
        out.append(_fail("L_equals_W != 1 - L/W or wrong total weight", got2, req2, ns=ns))
    CT = float(rng.uniform(1e-5, 3e-4)); a = float(rng.uniform(290, 345)); R = float(rng.uniform(1e5, 1.5e7)); M = float(rng.uniform(0.2, 0.9))
    cl = float(rng.uniform(0.2, 0.9)); cd = float(rng.uniform(0.01, 0.06))
    inp = {"CT": CT, "CL": cl, "CD": cd, "speed_of_sound": a, "R": R, "Mach_number": M, "W0": W0}
    inp.update({"s%d_structural_mass" % k: sm[k] for k in range(ns)})
    p = comp_problem(BreguetRange(surfaces=ss), inp)
    reqf = (W0 + sm.sum()) * (np.exp(R * CT / (a * M) * cd / cl) - 1)
    gotf = float(p.get_val("fuelburn")[0])
    if abs(gotf - reqf) > 1e-10 * abs(reqf):
        out.append(_fail("fuel burn does not follow the Breguet range equation", gotf, reqf, ns=ns))
    cgs = rng.normal(size=(ns, 3)) * 3; ecg = rng.normal(size=3) * 3
    inp = {"total_weight": W, "fuelburn": fb, "W0": W0, "load_factor": lf, "empty_cg": ecg}
    for k in range(ns):
        inp.update({"s%d_structural_mass" % k: sm[k], "s%d_cg_location" % k: cgs[k]})
    p = comp_problem(CenterOfGravity(surfaces=ss), inp)
    reqc = (W0 * ecg + (cgs * sm[:, None]).sum(axis=0)) / (W0 + sm.sum())
    gotc = np.array(p.get_val("cg"))
    if np.max(np.abs(gotc - reqc)) > 1e-10 * max(1.0, np.abs(reqc).max()):
        out.append(_fail("aircraft cg is not the mass-weighted mean", gotc, reqc, ns=ns))
    return out


@oracle("C17", "moment_coefficient")
def c17_cm(rng, tier):
    from openaerostruct.functionals.moment_coefficient import MomentCoefficient
    nx, ny = _pick_size(rng, tier)
    ns = int(rng.integers(1, 4))
    ss = [gen.base_surface(rng, nx + (k % 2), ny + k // 2, bool(rng.integers(2)), name="s%d" % k) for k in range(ns)]
    inp = {}
    cg = rng.normal(size=3) * 2; v = float(rng.uniform(20, 260)); rho = float(rng.uniform(0.2, 1.3)); Stot = float(rng.uniform(50, 500))
    M = np.zeros(3); mac0 = None
    for k, s in enumerate(ss):
        m = s["mesh"]; snx, sny = m.shape[:2]
        b = 0.75 * m[:-1] + 0.25 * m[1:]
        w = rng.uniform(0.3, 2.0, size=sny - 1); c = rng.uniform(0.5, 3.0, size=sny); S = float(rng.uniform(5, 300))
        F = rng.normal(size=(snx - 1, sny - 1, 3)) * 1e3
        inp.update({"s%d_b_pts" % k: b, "s%d_widths" % k: w, "s%d_chords" % k: c, "s%d_S_ref" % k: S, "s%d_sec_forces" % k: F})
        pts = 0.5 * (b[:, 1:] + b[:, :-1])
        mom = np.cross(pts - cg, F).sum(axis=(0, 1))
        if s["symmetry"]:
            mom = np.array([0.0, 2 * mom[1], 0.0])
        M += mom
        if k == 0:
            pc = 0.5 * (c[1:] + c[:-1])
            mac0 = np.sum(pc ** 2 * w) / S * (2 if s["symmetry"] else 1)
    inp.update(cg=cg, v=v, rho=rho, S_ref_total=Stot)
    p = comp_problem(MomentCoefficient(surfaces=ss), inp)
    out = []
    gotM = np.array(p.get_val("M")); gotCM = np.array(p.get_val("CM"))
    if np.max(np.abs(gotM - M)) > 1e-10 * max(np.abs(M).max(), 1.0):
        out.append(_fail("M is not the summed moment about the cg", gotM, M, ns=ns))
    reqCM = M / (0.5 * rho * v * v * Stot * mac0)
    if np.max(np.abs(gotCM - reqCM)) > 1e-10 * max(np.abs(reqCM).max(), 1e-12):
        out.append(_fail("CM != M / (q S_ref MAC of first surface)", gotCM, reqCM, ns=ns))
    return out


@oracle("C17", "atmosphere")
def c17_atmos(rng, tier):
    from openaerostruct.common.atmos_group import AtmosGroup
    import openmdao.api as om
    # metres; the whole tabulated range of the 1976 atmosphere (the table is coarser above 100 000 ft)
    alt_m = float(rng.uniform(100000, 150000 * 0.98) * 0.3048) if CURRENT_K % 2 else float(rng.uniform(-900, 80000 * 0.3048 * 0.98))
    M = float(rng.uniform(0.1, 0.9))
    prob = om.Problem(reports=False)
    prob.model.add_subsystem("atmos", AtmosGroup(), promotes=["*"])
    with quiet():
        prob.setup()
        prob.set_val("altitude", alt_m, units="m")
        prob.set_val("Mach_number", M)
        prob.run_model()
    T = float(prob.get_val("T", units="K")[0]); P = float(prob.get_val("P", units="Pa")[0])
    rho = float(prob.get_val("rho", units="kg/m**3")[0]); a = float(prob.get_val("speed_of_sound", units="m/s")[0])
    v = float(prob.get_val("v", units="m/s")[0]); mu = float(prob.get_val("mu", units="Pa*s")[0])
    re = float(prob.get_val("re", units="1/m")[0])
    out = []
    case = dict(altitude_m=alt_m, Mach=M)
    if abs(v - M * a) > 1e-10 * v:
        out.append(_fail("v != M a", v, M * a, **case))
    # evaluated in the components' native units: OpenMDAO's unit-conversion factors are only ~1e-8 accurate
    re_n = float(prob.get_val("re", units="1/ft")[0]); rho_n = float(prob.get_val("rho", units="slug/ft**3")[0])
    v_n = float(prob.get_val("v", units="ft/s")[0]); mu_n = float(prob.get_val("mu", units="lbf*s/ft**2")[0])
    if abs(re_n - rho_n * v_n / mu_n) > 1e-12 * re_n:
        out.append(_fail("re != rho v / mu", re_n, rho_n * v_n / mu_n, **case))
    # table resolution: ideal gas and speed of sound to the accuracy of independently interpolated columns
    if abs(P / (rho * 287.053 * T) - 1) > 5e-3:
        out.append(_fail("P != rho R T (ideal gas) beyond table resolution", P, rho * 287.053 * T, **case))
    if abs(a / np.sqrt(1.4 * 287.053 * T) - 1) > 5e-3:
        out.append(_fail("a != sqrt(gamma R T) beyond table resolution", a, np.sqrt(1.4 * 287.053 * T), **case))
    # continuity in altitude
    h = 1e-3
    prob.set_val("altitude", alt_m + h, units="m")
    with quiet():
        prob.run_model()
    rho2 = float(prob.get_val("rho", units="kg/m**3")[0])
    if abs(rho2 - rho) > 1e-3 * rho:
        out.append(_fail("density jumps across a 1 mm altitude step", rho2, rho, **case))
    # the identities also hold on a live problem when only one of the two inputs changes between evaluations
    for step in range(3):
        which = ["Mach_number", "altitude", "Mach_number"][step]
        if which == "Mach_number":
            M = float(rng.uniform(0.1, 0.9)); prob.set_val("Mach_number", M)
        else:
            alt_m = float(rng.uniform(-900, (150000 if CURRENT_K % 2 else 80000) * 0.3048 * 0.98)); prob.set_val("altitude", alt_m, units="m")
        with quiet():
            prob.run_model()
        a = float(prob.get_val("speed_of_sound", units="m/s")[0]); v = float(prob.get_val("v", units="m/s")[0])
        re_n = float(prob.get_val("re", units="1/ft")[0]); rho_n = float(prob.get_val("rho", units="slug/ft**3")[0])
        v_n = float(prob.get_val("v", units="ft/s")[0]); mu_n = float(prob.get_val("mu", units="lbf*s/ft**2")[0])
        if abs(v - M * a) > 1e-10 * max(v, M * a):
            out.append(_fail("v != M a on a live problem after only %s changed" % which, v, M * a, altitude_m=alt_m, Mach=M, step=step))
            break
        if abs(re_n - rho_n * v_n / mu_n) > 1e-12 * re_n:
            out.append(_fail("re != rho v / mu on a live problem after only %s changed" % which, re_n, rho_n * v_n / mu_n, altitude_m=alt_m, Mach=M))
            break
    return out


@oracle("C17", "atmosphere_continuity")
def c17_atmos_continuity(rng, tier):
    """continuity in altitude, searched with the model as a guide: a window of the table is scanned; every step must respect a
    Lipschitz bound derived from the table (125 x the largest secant slope of the column, proved for every Akima interpolant of the
    table in C17Akima.c17_akima_lipschitz_on_segment); where the code starts to differ from the modelled
    interpolant the switch point is bracketed by bisection to ~1e-7 ft and the same bound is demanded across the bracket"""
    from openaerostruct.common.atmos_comp import AtmosComp
    from . import generate
    cols = generate.atmos_columns()
    alt = np.array(cols["alt"]); n = len(alt)
    names = ["T", "P", "rho", "speed_of_sound", "mu", "v"]
    M = float(rng.uniform(0.1, 0.9))
    tab = [np.array(cols[k]) for k in ("T", "P", "rho", "a", "viscosity")]
    lip = [125.0 * float(np.max(np.abs(np.diff(c) / np.diff(alt)))) for c in tab]      # c17_akima_lipschitz_on_segment
    lip.append(M * lip[3])
    lip = np.array(lip)
    consts = np.concatenate([alt] + tab)
    kind = CURRENT_K % 4
    if kind == 0:
        lo = 35500.0
    elif kind == 1:
        lo = 64500.0
    elif kind == 2:
        lo = float(rng.uniform(alt[0], 98000.0))
    else:
        lo = float(rng.uniform(100000.0, alt[-1] - 2000.0))
    hs = lo + np.linspace(0.0, 2000.0, 41) + rng.uniform(0, 1e-3)
    prob = comp_problem(AtmosComp(), dict(altitude=np.array([hs[0]]), Mach_number=np.array([M])))

    def code(h):
        prob.set_val("altitude", h)
        with quiet():
            prob.run_model()
        return np.array([float(prob.get_val(o)[0]) for o in names])

    def model(h):
        return core.model_value("AtmosComp", [n], np.concatenate([consts, [h, M]]))

    def jump(a, b, fa, fb):
        tol = lip * (b - a) + 1e-10 * np.maximum(np.abs(fa), np.abs(fb))
        bad = np.nonzero(np.abs(fb - fa) > tol)[0]
        return [(names[i], float(fa[i]), float(fb[i])) for i in bad]

    out = []
    F = [code(h) for h in hs]
    for k in range(len(hs) - 1):
        for (o, x, y) in jump(hs[k], hs[k + 1], F[k], F[k + 1]):
            out.append(_fail("%s changes faster across a %.0f ft step than any interpolant of the table can" % (o, hs[k + 1] - hs[k]), y, x,
                             altitude_ft=[float(hs[k]), float(hs[k + 1])], Mach=M))
    agree = [bool(np.all(np.abs(F[k] - model(hs[k])) <= 1e-8 * np.abs(F[k]))) for k in range(len(hs))]
    for k in range(len(hs) - 1):
        if agree[k] != agree[k + 1] and not out:
            a, b = float(hs[k]), float(hs[k + 1]); sa = agree[k]
            for _ in range(60):
                if b - a < 1e-7:
                    break
                c = 0.5 * (a + b); fc = code(c)
                if bool(np.all(np.abs(fc - model(c)) <= 1e-8 * np.abs(fc))) == sa:
                    a = c
                else:
                    b = c
            fa, fb = code(a), code(b)
            for (o, x, y) in jump(a, b, fa, fb):
                out.append(_fail("%s jumps at the altitude where the component stops following the interpolant of its table" % o, y, x,
                                 altitude_ft=[a, b], Mach=M))
            break
    return out


# ---------------------------------------------------------------------------------------
# C18
# ---------------------------------------------------------------------------------------
def _viscous(s, ny, re, M, S, widths, lsp, lengths, toc):
    from openaerostruct.aerodynamics.viscous_drag import ViscousDrag
    p = comp_problem(ViscousDrag(surface=s), dict(re=re, Mach_number=M, S_ref=S, widths=widths, lengths_spanwise=lsp,
                                                  lengths=lengths, t_over_c=toc))
    return float(p.get_val("CDv")[0])


def _wave(s, M, CL, widths, lsp, chords, toc):
    from openaerostruct.aerodynamics.wave_drag import WaveDrag
    p = comp_problem(WaveDrag(surface=s), dict(Mach_number=M, CL=CL, widths=widths, lengths_spanwise=lsp, chords=chords, t_over_c=toc))
    return float(p.get_val("CDw")[0])


@oracle("C18", "drag_estimates")
def c18_drag(rng, tier):
    nx, ny = _pick_size(rng, tier)
    sym = bool(rng.integers(2))
    s = gen.base_surface(rng, nx, ny, sym)
    s["k_lam"] = float(rng.choice([0.0, 0.05, 0.3, 0.7, 1.0])); s["c_max_t"] = float(rng.uniform(0.25, 0.45))
    widths = rng.uniform(0.3, 2.0, size=ny - 1); lsp = widths / np.cos(np.radians(rng.uniform(0, 55, size=ny - 1)))
    lengths = rng.uniform(0.5, 3.0, size=ny); toc = rng.uniform(0.03, 0.3, size=ny - 1)
    chord_min = 0.5 * np.min(lengths[1:] + lengths[:-1])
    re_min = 1.1e3 / chord_min / (s["k_lam"] if s["k_lam"] > 0 else 1.0)
    re = float(max(10 ** rng.uniform(5, 7.5), re_min)); M = float(rng.uniform(0.05, 0.94)); S = float(rng.uniform(5, 400))
    out = []
    case = dict(ny=ny, symmetry=sym, k_lam=s["k_lam"], re=re, M=M)
    s_off = dict(s); s_off["with_viscous"] = False; s_off["with_wave"] = False
    if _viscous(s_off, ny, re, M, S, widths, lsp, lengths, toc) != 0.0:
        out.append(_fail("CDv not exactly zero when viscous drag is off", "nonzero", 0.0, **case))
    if _wave(s_off, M, 0.5, widths, lsp, lengths, toc) != 0.0:
        out.append(_fail("CDw not exactly zero when wave drag is off", "nonzero", 0.0, **case))
    s["with_viscous"] = True
    c0 = _viscous(s, ny, re, M, S, widths, lsp, lengths, toc)
    if not (c0 > 0):
        out.append(_fail("viscous drag not positive", c0, ">0", **case))
    c1 = _viscous(s, ny, re * 1.5, M, S, widths, lsp, lengths, toc)
    if not (c1 < c0):
        out.append(_fail("viscous drag does not decrease with Reynolds number", [c0, c1], "decreasing", **case))
    c2 = _viscous(s, ny, re, M, S, widths, lsp, lengths, np.minimum(toc * 1.2, 0.3 + 0 * toc) + 1e-3)
    if not (c2 > c0):
        out.append(_fail("viscous drag does not increase with thickness ratio", [c0, c2], "increasing", **case))
    # wave drag shape
    s["with_wave"] = True
    CL = float(rng.uniform(-0.8, 0.8))
    area = 0.5 * (lengths[:-1] + lengths[1:]) * widths
    ac = np.sum(widths / lsp * area) / area.sum(); at = np.sum(toc * area) / area.sum()
    mcrit = 0.95 / ac - at / ac ** 2 - CL / (10 * ac ** 3) - (0.1 / 80.0) ** (1.0 / 3.0)
    fac = 2 if sym else 1
    for dM in (-0.2, -0.01, 0.005, 0.05, 0.15):
        w = _wave(s, mcrit + dM, CL, widths, lsp, lengths, toc)
        req = fac * 20 * max(dM, 0.0) ** 4
        if abs(w - req) > 1e-9 * max(req, 1e-12) + (0 if dM > 0 else 0):
            out.append(_fail("wave drag != 20 (M - Mcrit)^4 beyond / 0 below the crest-critical Mach number", w, req, dM=dM, **case))
    w1 = _wave(s, mcrit + 0.05, CL, widths, lsp, lengths, toc); w2 = _wave(s, mcrit + 0.05, CL + 0.1, widths, lsp, lengths, toc)
    if not (w2 > w1):
        out.append(_fail("wave drag does not grow with lift", [w1, w2], "increasing", **case))
    return out


@oracle("C18", "mesh_independence")
def c18_mesh_independence(rng, tier):
    """constant-chord untwisted wing: CDv, CDw from the real VLMGeometry + drag components at several (nx, ny)"""
    from openaerostruct.aerodynamics.geometry import VLMGeometry
    from openaerostruct.geometry.utils import generate_mesh
    sym = bool(rng.integers(2))
    span = float(rng.uniform(4, 14)); chord = float(rng.uniform(0.6, 2.5))
    k_lam = float(rng.choice([0.0, 0.05, 0.5, 1.0])); toc0 = float(rng.uniform(0.05, 0.2))
    re = float(10 ** rng.uniform(5.5, 7)); M = float(rng.uniform(0.75, 0.93)); CL = float(rng.uniform(0.3, 0.8))
    res = []
    sizes = [(2, 3), (3, 5), (2, 7), (4, 9), (3, 11)] if tier == "quick" else [(2, 3), (3, 5), (2, 7), (4, 9), (3, 11), (5, 15), (6, 21)]
    if CURRENT_K % 2 == 1:
        # a small model (wind-tunnel / hand-launched scale) with a very fine, cosine-clustered spanwise discretisation: strips far
        # below a millimetre next to the tips
        k = float(10 ** rng.uniform(-1.5, -0.5)); span *= k; chord *= k; re /= k
        sizes = sizes[:3] + [(2, 301), (3, 641)]
    for (nx, num_y) in sizes:
        mesh = generate_mesh(dict(num_x=nx, num_y=num_y, wing_type="rect", symmetry=sym, span=span, root_chord=chord,
                                  span_cos_spacing=float(rng.uniform(0, 1)), chord_cos_spacing=float(rng.uniform(0, 1))))
        ny = mesh.shape[1]
        s = gen.base_surface(rng, nx, ny, sym); s["mesh"] = mesh; s["k_lam"] = k_lam; s["with_wave"] = True; s["with_viscous"] = True
        s["S_ref_type"] = "wetted"
        p = comp_problem(VLMGeometry(surface=s), dict(def_mesh=mesh))
        g = {k: np.array(p.get_val(k)) for k in ("widths", "lengths_spanwise", "lengths", "chords", "S_ref")}
        toc = np.full(ny - 1, toc0)
        cdv = _viscous(s, ny, re, M, g["S_ref"], g["widths"], g["lengths_spanwise"], g["lengths"], toc)
        cdw = _wave(s, M, CL, g["widths"], g["lengths_spanwise"], g["chords"], toc)
        res.append((nx, num_y, cdv, cdw))
    out = []
    cdv = np.array([r[2] for r in res]); cdw = np.array([r[3] for r in res])
    if np.ptp(cdv) > 1e-9 * cdv.max():
        out.append(_fail("CDv of a constant-chord wing depends on the panel counts", cdv, cdv[0], sizes=sizes, symmetry=sym, k_lam=k_lam))
    if np.ptp(cdw) > 1e-9 * max(cdw.max(), 1e-12):
        out.append(_fail("CDw of a constant-chord wing depends on the panel counts", cdw, cdw[0], sizes=sizes, symmetry=sym))
    return out


# ---------------------------------------------------------------------------------------
# C13
# ---------------------------------------------------------------------------------------
def _run_geometry(surface, setvals=None):
    from openaerostruct.geometry.geometry_group import Geometry
    import openmdao.api as om
    prob = om.Problem(reports=False)
    prob.model.add_subsystem("geom", Geometry(surface=surface), promotes=["*"])
    with quiet():
        prob.setup()
        for k, v in (setvals or {}).items():
            prob.set_val(k, v)
        prob.run_model()
    return np.array(prob.get_val("mesh"))


def _clean_mesh(rng, nx, ny, sym, kind):
    """input meshes whose chordwise rows share y (as all OAS generators produce): flat, pre-twisted, cambered, dihedral"""
    from openaerostruct.geometry.utils import generate_mesh
    span = float(rng.uniform(4, 14)); chord = float(rng.uniform(0.6, 2.5))
    num_y = 2 * ny - 1 if sym else (ny if ny % 2 else ny + 1)
    mesh = np.array(generate_mesh(dict(num_x=nx, num_y=num_y, wing_type="rect", symmetry=sym, span=span, root_chord=chord,
                                       span_cos_spacing=float(rng.uniform(0, 1)), chord_cos_spacing=float(rng.uniform(0, 1)))), dtype=float)
    y = mesh[0, :, 1]; eta = np.abs(y) / (span / 2)
    xi = (mesh[:, 0, 0] - mesh[0, 0, 0]) / chord
    if kind in ("pretwisted", "cambered+dihedral"):
        mesh[:, :, 2] -= (mesh[:, :, 0] - mesh[0, :, 0]) * np.tan(np.radians(3.0) * eta)[None, :]
    if kind in ("cambered", "cambered+dihedral"):
        mesh[:, :, 2] += (0.04 * chord * 4 * xi * (1 - xi))[:, None]
    if kind in ("dihedral", "cambered+dihedral"):
        mesh[:, :, 2] += np.tan(np.radians(6.0)) * np.abs(y)[None, :]
    return mesh, span, chord


def _ref_axis(rng):
    """reference-axis position in [0, 1]: the end points (leading / trailing edge) and the default are admissible special values"""
    return float(rng.choice([rng.uniform(0, 1), 0.0, 1.0, 0.25], p=[0.55, 0.2, 0.15, 0.1]))


@oracle("C13", "reused_dictionary")
def c13_reused_dictionary(rng, tier):
    """a planform study: ONE surface dictionary, a fresh problem per mesh.  Whatever an earlier problem did, the defaults must leave
    each new mesh unchanged and `span` must still mean the tip-to-tip extent of the mesh now in the dictionary."""
    nx, ny = _pick_size(rng, tier)
    sym = bool(rng.integers(2))
    s = dict(name="wing", symmetry=sym, S_ref_type="wetted", fem_model_type="tube")
    if rng.uniform() < 0.5:
        s["ref_axis_pos"] = _ref_axis(rng)
    decl = [k for k in ("taper", "sweep", "dihedral", "twist_cp", "chord_cp") if rng.uniform() < 0.4]
    for k in decl:
        s[k] = {"taper": 1.0, "sweep": 0.0, "dihedral": 0.0}.get(k, np.ones(2) if k == "chord_cp" else np.zeros(2))
    keys0 = sorted(s)
    out = []
    for step in range(3):
        mesh, span, chord = _clean_mesh(rng, nx, ny, sym, "flat")
        s["mesh"] = mesh.copy()
        got = _run_geometry(s)
        err = np.max(np.abs(got - mesh))
        if err > 1e-12 * max(span, chord):
            out.append(_fail("default design variables change the mesh when the surface dictionary is reused for another planform",
                             err, 0.0, step=step, nx=nx, ny=mesh.shape[1], symmetry=sym, span=span, declared=decl))
            break
        extra = sorted(k for k in s if k not in keys0 and k != "mesh")
        if extra:
            out.append(_fail("Geometry added keys to the user's surface dictionary", extra, [], step=step))
            break
    return out


@oracle("C13", "structural_spline_distributions")
def c13_struct_splines(rng, tier):
    """the B-spline distributions of the structural groups (tube: thickness, radius; wingbox: spar and skin thickness) over the
    normalised span (0 at the first spanwise station, 1 at the last): equal control points give a constant, two control points give
    the straight line between them at the panel mid-points, any control points stay within their convex hull, monotone control
    points give a monotone distribution; without radius control points the radius follows the local chord"""
    import openmdao.api as om
    from openaerostruct.structures.tube_group import TubeGroup
    from openaerostruct.structures.wingbox_group import WingboxGroup
    nx, ny = _pick_size(rng, tier)
    ny = max(ny, 3)
    sym = bool(rng.integers(2))
    if not sym and ny % 2 == 0:
        ny += 1             # full-span surfaces have an odd number of spanwise nodes
    wing = bool(rng.integers(2))
    s = gen.base_surface(rng, nx, ny, sym, fem="wingbox" if wing else "tube", jitter=0.0, right=bool(sym and rng.uniform() < 0.3))
    mesh = s["mesh"]
    y = mesh[0, :, 1]
    xm = ((y[:-1] + y[1:]) / 2 - y[0]) / (y[-1] - y[0])
    out = []
    case = dict(nx=nx, ny=ny, symmetry=sym, model="wingbox" if wing else "tube")
    if wing:
        from .specs import _airfoil
        s.update(_airfoil(rng)); s.pop("thickness_cp", None)
        names = ["spar_thickness", "skin_thickness"]
    else:
        names = ["thickness", "radius"] if rng.uniform() < 0.6 else ["thickness"]
    ncp = int(rng.integers(2, 6))
    kind = str(rng.choice(["equal", "two", "monotone", "random"]))
    cps = {}
    for nm in names:
        if kind == "equal":
            cps[nm] = np.full(ncp, float(rng.uniform(0.002, 0.3)))
        elif kind == "two":
            cps[nm] = rng.uniform(0.002, 0.3, size=2)
        elif kind == "monotone":
            cps[nm] = np.sort(rng.uniform(0.002, 0.3, size=ncp))[:: int(rng.choice([1, -1]))].copy()
        else:
            cps[nm] = rng.uniform(0.002, 0.3, size=ncp)
        s[nm + "_cp"] = cps[nm].copy()
    grp = WingboxGroup(surface=s) if wing else TubeGroup(surface=s)
    prob = om.Problem(reports=False)
    ivc = om.IndepVarComp(); ivc.add_output("mesh", val=mesh, units="m"); ivc.add_output("t_over_c", val=rng.uniform(0.08, 0.16, size=ny - 1))
    prob.model.add_subsystem("ivc", ivc, promotes=["*"]); prob.model.add_subsystem("g", grp, promotes=["*"])
    with quiet():
        prob.setup(); prob.run_model()
    for nm in names:
        v = np.array(prob.get_val(nm), dtype=float).ravel(); cp = cps[nm]
        tol = 1e-12 * max(np.max(np.abs(cp)), 1e-30)
        if v.shape != (ny - 1,):
            out.append(_fail("%s distribution has the wrong length" % nm, list(v.shape), [ny - 1], **case)); continue
        if kind == "equal" and np.max(np.abs(v - cp[0])) > tol:
            out.append(_fail("equal %s control points do not give a constant distribution" % nm, v, cp[0], **case))
        if kind == "two" and np.max(np.abs(v - (cp[0] + (cp[1] - cp[0]) * xm))) > 1e-10 * np.max(np.abs(cp)):
            out.append(_fail("two %s control points do not give the straight line between them over the normalised span "
                             "(0 at the first station, 1 at the last; panel mid-points)" % nm, v, cp[0] + (cp[1] - cp[0]) * xm, **case))
        if np.min(v) < np.min(cp) - tol or np.max(v) > np.max(cp) + tol:
            out.append(_fail("%s distribution leaves the range of its control points" % nm, [float(np.min(v)), float(np.max(v))],
                             [float(np.min(cp)), float(np.max(cp))], kind=kind, **case))
        if kind == "monotone":
            d = np.diff(v) * np.sign(cp[-1] - cp[0])
            if np.any(d < -tol):
                out.append(_fail("monotone %s control points give a non-monotone distribution" % nm, v, "monotone", **case))
    # the same for the thickness-to-chord distribution of the geometry group (panel mid-points)
    from openaerostruct.geometry.geometry_group import Geometry
    tc = rng.uniform(0.06, 0.18, size=2)
    sg = dict(name="wing", symmetry=s["symmetry"], mesh=mesh.copy(), t_over_c_cp=tc.copy())
    pg = om.Problem(reports=False); pg.model.add_subsystem("geom", Geometry(surface=sg), promotes=["*"])
    with quiet():
        pg.setup(); pg.run_model()
    v = np.array(pg.get_val("t_over_c"), dtype=float).ravel()
    if v.shape != (ny - 1,) or np.max(np.abs(v - (tc[0] + (tc[1] - tc[0]) * xm))) > 1e-10:
        out.append(_fail("two t_over_c control points do not give the straight line between them over the normalised span (panel mid-points)",
                         v, tc[0] + (tc[1] - tc[0]) * xm, **case))
    if not wing and "radius" not in names:
        from openaerostruct.structures.utils import radii
        r = np.array(prob.get_val("radius"), dtype=float).ravel(); req = radii(mesh, np.array(prob.get_val("t_over_c")))
        if relerr(r, req) > 1e-12:
            out.append(_fail("without radius control points the spar radius is not t/c times half the mean chord", r, req, **case))
    return out


@oracle("C13", "defaults_are_noop")
def c13_defaults(rng, tier):
    nx, ny = _pick_size(rng, tier)
    sym = bool(rng.integers(2))
    kind = str(rng.choice(["flat", "pretwisted", "cambered", "dihedral", "cambered+dihedral"]))
    mesh, span, chord = _clean_mesh(rng, nx, ny, sym, kind)
    if rng.uniform() < 0.4:
        mesh[:, :, 1] += float(rng.normal() * 2.0)       # surface not centred on / rooted at y = 0
    ncp = int(rng.integers(2, 5))
    s = dict(name="wing", symmetry=sym, mesh=mesh.copy(), S_ref_type="wetted", fem_model_type="tube")
    if rng.uniform() < 0.5:
        s["ref_axis_pos"] = _ref_axis(rng)
    # a random subset of design variables is declared, all at their default values
    decl = [k for k in ("taper", "chord_cp", "sweep", "xshear_cp", "yshear_cp", "dihedral", "zshear_cp", "twist_cp") if rng.uniform() < 0.6]
    for k in decl:
        s[k] = {"taper": 1.0, "sweep": 0.0, "dihedral": 0.0}.get(k, np.ones(ncp) if k == "chord_cp" else np.zeros(ncp))
    out = []
    got = _run_geometry(s)
    err = np.max(np.abs(got - mesh))
    if err > 1e-12 * max(span, chord):
        f = _fail("default design variables change the mesh", err, 0.0, nx=nx, ny=mesh.shape[1], symmetry=sym, mesh=kind, declared=decl)
        # known finding F8a: Rotate pre-rotates every section about x by the local dihedral angle of the
        # reference axis even at zero twist.  The failure is attributed to F8a only if the output is
        # *exactly* that pre-rotation of the input (anything else stays an unexplained violation).
        pos = s.get("ref_axis_pos", 0.25)
        ref = pos * mesh[-1] + (1 - pos) * mesh[0]
        nyy = mesh.shape[1]
        thx = np.zeros(nyy)
        if sym:
            thx[:-1] = np.arctan((ref[:-1, 2] - ref[1:, 2]) / (ref[:-1, 1] - ref[1:, 1]))
        else:
            r = (nyy - 1) // 2
            thx[:r] = np.arctan((ref[:r, 2] - ref[1:r + 1, 2]) / (ref[:r, 1] - ref[1:r + 1, 1]))
            thx[r + 1:] = np.arctan((ref[r + 1:, 2] - ref[r:-1, 2]) / (ref[r + 1:, 1] - ref[r:-1, 1]))
        d = mesh - ref
        exp8 = mesh.copy()
        exp8[:, :, 1] = ref[:, 1] + np.cos(thx) * d[:, :, 1] - np.sin(thx) * d[:, :, 2]
        exp8[:, :, 2] = ref[:, 2] + np.sin(thx) * d[:, :, 1] + np.cos(thx) * d[:, :, 2]
        if np.max(np.abs(got - exp8)) <= 1e-12 * max(span, chord):
            f["finding"] = "F8a"
        out.append(f)
    if not np.array_equal(s["mesh"], mesh):
        out.append(_fail("Geometry modified the user's mesh array", "changed", "unchanged", nx=nx, symmetry=sym))
    return out


@oracle("C13", "documented_effects")
def c13_effects(rng, tier):
    nx, ny = _pick_size(rng, tier)
    sym = bool(rng.integers(2))
    mesh, span, chord = _clean_mesh(rng, nx, ny, sym, "flat")
    ny = mesh.shape[1]
    pos = _ref_axis(rng)
    base = dict(name="wing", symmetry=sym, mesh=mesh, ref_axis_pos=pos)
    if pos == 0.25 and rng.uniform() < 0.5:
        del base["ref_axis_pos"]        # the documented default
    ref = pos * mesh[-1] + (1 - pos) * mesh[0]
    root = ny - 1 if sym else (ny - 1) // 2
    dist = np.abs(mesh[0, :, 1] - mesh[0, root, 1])
    out = []
    case = dict(nx=nx, ny=ny, symmetry=sym, ref_axis_pos=pos)
    # sweep: positive = aft, x shift |y - y_root| tan, y and z kept, planform area kept
    ang = float(rng.uniform(5, 35))
    m = _run_geometry(dict(base, sweep=ang))
    req = mesh.copy(); req[:, :, 0] += dist * np.tan(np.radians(ang))
    if relerr(m, req) > 1e-12:
        out.append(_fail("sweep does not displace x by |y-y_root| tan(sweep) keeping y, z", m - mesh, req - mesh, sweep=ang, **case))
    def area(mm):
        d1 = mm[:-1, 1:] - mm[1:, :-1]; d2 = mm[:-1, :-1] - mm[1:, 1:]
        return 0.5 * np.abs(d1[:, :, 0] * d2[:, :, 1] - d1[:, :, 1] * d2[:, :, 0]).sum()
    if abs(area(m) - area(mesh)) > 1e-12 * area(mesh):
        out.append(_fail("sweep changes the planform area", area(m), area(mesh), sweep=ang, **case))
    # dihedral
    ang = float(rng.uniform(2, 15))
    m = _run_geometry(dict(base, dihedral=ang))
    req = mesh.copy(); req[:, :, 2] += dist * np.tan(np.radians(ang))
    if relerr(m, req) > 1e-12:
        out.append(_fail("dihedral does not displace z by |y-y_root| tan(dihedral)", m - mesh, req - mesh, dihedral=ang, **case))
    # taper: chords scale linearly from 1 at the root to t at the tip, about the reference axis
    t = float(rng.uniform(0.3, 0.9))
    m = _run_geometry(dict(base, taper=t))
    half = span / 2
    fac = 1 - (1 - t) * dist / np.max(dist)
    c0 = mesh[-1, :, 0] - mesh[0, :, 0]; c1 = m[-1, :, 0] - m[0, :, 0]
    if relerr(c1, c0 * fac) > 1e-12:
        out.append(_fail("taper does not scale chords linearly from 1 (root) to taper (tip)", c1 / c0, fac, taper=t, **case))
    ref1 = pos * m[-1] + (1 - pos) * m[0]
    if relerr(ref1, ref) > 1e-12:
        out.append(_fail("taper moves the reference axis", ref1, ref, taper=t, **case))
    # span: tip-to-tip extent
    sp = float(span * rng.uniform(0.7, 1.5))
    m = _run_geometry(dict(base, span=sp))
    ref1 = pos * m[-1] + (1 - pos) * m[0]
    ext = (ref1[-1, 1] - ref1[0, 1]) * (2 if sym else 1)
    if abs(ext - sp) > 1e-12 * sp:
        out.append(_fail("span does not set the tip-to-tip extent", ext, sp, **case))
    # chord scaling and twist act about the reference axis; twist preserves chord length
    ncp = int(rng.integers(2, 5))
    ccp = rng.uniform(0.6, 1.4, size=ncp); tcp = rng.uniform(-8, 8, size=ncp)
    m = _run_geometry(dict(base, chord_cp=ccp, twist_cp=tcp))
    ref1 = pos * m[-1] + (1 - pos) * m[0]
    if relerr(ref1, ref) > 1e-12:
        out.append(_fail("chord scaling / twist move the reference axis", ref1, ref, **case))
    m2 = _run_geometry(dict(base, chord_cp=ccp))
    l1 = np.linalg.norm(m[-1] - m[0], axis=1); l2 = np.linalg.norm(m2[-1] - m2[0], axis=1)
    if relerr(l1, l2) > 1e-12:
        out.append(_fail("twist changes the chord length", l1, l2, **case))
    # combinations: sweep and dihedral are linear in the distance from the root of the *resulting* planform (after the span has
    # been set and the sections have been sheared in y)
    ang_s = float(rng.uniform(5, 30)); ang_d = float(rng.uniform(2, 12)); sp = float(span * rng.uniform(0.7, 1.5))
    ysh = np.linspace(0.0, float(rng.uniform(-0.3, 0.3)), 3) if sym else np.zeros(3)
    m0 = _run_geometry(dict(base, span=sp, yshear_cp=ysh))
    m = _run_geometry(dict(base, span=sp, yshear_cp=ysh, sweep=ang_s, dihedral=ang_d))
    dist1 = np.abs(m[0, :, 1] - m[0, root, 1])
    if relerr(m[:, :, 1], m0[:, :, 1]) > 1e-12:
        out.append(_fail("sweep / dihedral change y", m[:, :, 1], m0[:, :, 1], **case))
    if relerr(m[:, :, 2] - m0[:, :, 2], np.broadcast_to(dist1 * np.tan(np.radians(ang_d)), m[:, :, 2].shape)) > 1e-10:
        out.append(_fail("with a modified span / y-shear, dihedral does not displace z by |y-y_root| tan(dihedral)",
                         (m[:, :, 2] - m0[:, :, 2])[0], dist1 * np.tan(np.radians(ang_d)), dihedral=ang_d, span=sp, **case))
    # shears translate sections; equal control points give a constant distribution
    v = float(rng.normal())
    for key, ax in (("xshear_cp", 0), ("yshear_cp", 1), ("zshear_cp", 2)):
        m = _run_geometry(dict(base, **{key: np.full(ncp, v)}))
        req = mesh.copy(); req[:, :, ax] += v
        if relerr(m, req) > 1e-12:
            out.append(_fail("equal %s control points do not translate every section by the same amount" % key, m - mesh, req - mesh, ncp=ncp, **case))
    return out


# ---------------------------------------------------------------------------------------
# history (C03, and as a supplement for every property's component footprint):
# a live component problem taken through a sequence of points must reproduce a fresh problem
# ---------------------------------------------------------------------------------------
def history_case(name, rng, tier, variant=None):
    """one live-problem history for component spec `name`; returns failures (code vs code, no model involved).

    A -> linearise x k -> B1 -> (run, linearise x m | another instance in between) -> compare with a fresh problem at B1
      -> B2 -> run, linearise -> compare with a fresh problem at B2.
    B is: one input set to exactly zero (every input in turn, scalars included), a perturbation of everything, the same point,
    or exactly one input changed."""
    from .specs import SPECS
    from . import suites
    from .core import comp_jacobian, comp_outputs, flat_cat
    sp = SPECS[name]
    nx, ny = _pick_size(rng, tier)
    ny = max(ny, sp["min_ny"])
    sym = bool(sp["sym_opts"][int(rng.integers(len(sp["sym_opts"])))])
    c = suites.component_case(name, rng, nx, ny, sym)
    inputs = dict(c["inputs"]); extra = dict(c.get("extra_inputs", {}))
    outs = c["outputs"]; innames = list(inputs)
    allA = dict(inputs); allA.update(extra)

    def perturbed(kind, base):
        b = {}
        for k, v in base.items():
            v = np.array(v, dtype=float)
            b[k] = v * (1 + 0.2 * rng.uniform(-1, 1, size=v.shape)) if kind != "same" else v.copy()
        if kind.startswith("zero:"):
            k0 = kind[5:]
            b[k0] = np.zeros_like(np.array(base[k0], dtype=float))
        if kind.startswith("only:"):
            # exactly one input differs from the previous point (a cache keyed on the other inputs would go stale)
            k0 = kind[5:]
            b = {k: (b[k] if k == k0 else np.array(v, dtype=float).copy()) for k, v in base.items()}
        return b
    big = [k for k in innames if np.asarray(allA[k]).size > 1]
    small = [k for k in innames if np.asarray(allA[k]).size == 1]
    kinds = ["zero:" + k for k in big] + ["perturbed", "same"] + ["only:" + k for k in small] + ["only:" + k for k in big] \
        + ["zero:" + k for k in small]
    v0 = int(rng.integers(len(kinds))) if variant is None else variant % len(kinds)
    kind = kinds[v0]
    kind2 = kinds[(v0 + (len(kinds) + 1) // 2) % len(kinds)]
    want_jac = c.get("jac", True) and sp["jac"]

    def evaluate(prob, nlin=1):
        with quiet():
            prob.run_model()
        o = flat_cat(comp_outputs(prob, outs), outs)
        J = None
        if want_jac:
            for _ in range(nlin):       # consecutive linearisations without an intervening run_model
                Jd = comp_jacobian(prob, outs, innames)
            J = np.concatenate([np.concatenate([Jd[(oo, ii)].ravel() for ii in innames]) for oo in outs])
        return o, J

    def setall(prob, vals):
        for k, v in vals.items():
            prob.set_val(k, v)

    def same(a, b):
        a = np.asarray(a, dtype=float); b = np.asarray(b, dtype=float)
        if a.shape != b.shape:
            return False
        fin = np.isfinite(a) & np.isfinite(b)
        if not np.array_equal(np.isfinite(a), np.isfinite(b)):
            return False
        if not fin.any():
            return True
        sc = max(np.max(np.abs(a[fin])), np.max(np.abs(b[fin])), 1e-300)
        return bool(np.max(np.abs(a[fin] - b[fin])) <= 1e-10 * sc)

    live = comp_problem(c["factory"](), allA)
    seq = ["A"]
    evaluate(live)
    nrep = int(rng.integers(1, 3))
    for _ in range(nrep):          # linearise repeatedly at A
        if want_jac:
            comp_jacobian(live, outs, innames); seq.append("linearize")
    rng.uniform()                       # (keeps the random stream of the earlier version)
    interleave = bool(CURRENT_K % 2 == 1)       # every second history of a component interleaves a second instance

    def step(knd, base, first):
        """move the live problem to the next point, evaluate, compare with a fresh problem there; returns (failures, point) or raises Discard"""
        B = perturbed(knd, base)
        setall(live, B); seq.append("B(%s)" % knd)
        nlin = int(rng.integers(1, 4))
        excL = excF = None
        oL = JL = oF = JF = None
        try:
            if interleave:
                # a second instance of the same component (same names, same sizes, other inputs – and the other symmetry setting when the
                # component has one) is set up, run and linearised between the analysis of the live problem and its linearisation
                with quiet():
                    live.run_model()
                rng.uniform()
                sym2 = (not sym) if len(sp["sym_opts"]) > 1 else sym
                try:
                    c2 = suites.component_case(name, rng, nx, ny, sym2)
                    all2 = dict(c2["inputs"]); all2.update(c2.get("extra_inputs", {}))
                    other = comp_problem(c2["factory"](), all2)
                    if want_jac and c2.get("jac", True):
                        comp_jacobian(other, c2["outputs"], list(c2["inputs"]))
                except Exception:
                    pass            # whether the second case itself is admissible is not the subject here
                seq.append("another instance (symmetry=%s) run and linearised" % sym2)
                if want_jac:
                    Jd = comp_jacobian(live, outs, innames)        # no run_model in between
                    JL = np.concatenate([np.concatenate([Jd[(oo, ii)].ravel() for ii in innames]) for oo in outs])
                with quiet():
                    live.run_model()
                oL = flat_cat(comp_outputs(live, outs), outs); seq.append("linearize, run")
            else:
                oL, JL = evaluate(live, nlin); seq.append("run, linearize x%d" % nlin)
                if rng.uniform() < 0.3:
                    oL, JL = evaluate(live); seq.append("again")
        except Exception as ex:
            excL = type(ex).__name__
        try:
            fresh = comp_problem(c["factory"](), B)
            oF, JF = evaluate(fresh)
        except Exception as ex:
            excF = type(ex).__name__
        if excL or excF:
            if excL == excF:
                raise Discard()       # the point itself is not admissible (e.g. zero stiffness): not a history effect
            return [_fail("a live problem and a fresh problem disagree on whether the point can be evaluated", excL, excF,
                          component=name, nx=nx, ny=ny, symmetry=sym, sequence=list(seq))], B
        out = []
        case = dict(component=name, nx=nx, ny=ny, symmetry=sym, sequence=list(seq))
        if not same(oL, oF):
            out.append(_fail("outputs of a live problem differ from a fresh problem at the same point", float(np.nanmax(np.abs(oL - oF))), 0.0, **case))
        if want_jac and not same(JL, JF):
            out.append(_fail("derivatives of a live problem differ from a fresh problem at the same point", float(np.nanmax(np.abs(JL - JF))), 0.0, **case))
        return out, B

    out, B1 = step(kind, allA, True)
    if out:
        return out
    with quiet():
        o1 = flat_cat(comp_outputs(live, outs), outs)
    if not np.all(np.isfinite(o1)):
        return out          # the point just visited is not admissible (non-finite outputs, identically on a fresh problem): the
                            # property quantifies over histories of admissible points, so the history ends here
    try:
        out2, _ = step(kind2, B1 if not kind.startswith("zero:") else allA, False)
    except Discard:
        return out
    return out2


def register_history(prop, components):
    comps = [c for c in components]
    if not comps or any(n.startswith("history:") for n, _ in ORACLES.get(prop, [])):
        return

    for cname in comps:
        def f(rng, tier, cname=cname):
            return history_case(cname, rng, tier, variant=CURRENT_K)
        ORACLES.setdefault(prop, []).append(("history:" + cname, f))


# ---------------------------------------------------------------------------------------
# C01: the Jacobian a real component reports vs Richardson-extrapolated central differences of its own compute()
# ---------------------------------------------------------------------------------------
def jacobian_case(name, rng, tier):
    from .specs import SPECS
    from . import suites
    from .core import comp_jacobian, fd_jacobian, dense_from_blocks, comp_outputs, flat_cat
    sp = SPECS[name]
    if not sp["jac"]:
        raise Discard()
    nx, ny = _pick_size(rng, tier)
    ny = max(ny, sp["min_ny"])
    sym = bool(sp["sym_opts"][int(rng.integers(len(sp["sym_opts"])))])
    c = suites.component_case(name, rng, nx, ny, sym)
    if not c.get("jac", True):
        raise Discard()
    inputs = dict(c["inputs"]); extra = dict(c.get("extra_inputs", {}))
    allin = dict(inputs); allin.update(extra)
    outs = c["outputs"]; innames = list(inputs)
    prob = comp_problem(c["factory"](), allin)
    real = comp_outputs(prob, outs)
    osz = {o: real[o].size for o in outs}; isz = {i: np.asarray(inputs[i]).size for i in innames}
    J = dense_from_blocks(comp_jacobian(prob, outs, innames), outs, innames, osz, isz)
    # finite differences w.r.t. the differentiated inputs only (extra inputs are held fixed)
    Jfd = fd_jacobian(c["factory"], allin, outs)
    Jfd2 = fd_jacobian(c["factory"], allin, outs, rel=2.3e-5)
    cols = []
    off = 0
    for k in allin:
        n = np.asarray(allin[k]).size
        if k in inputs:
            cols += list(range(off, off + n))
        off += n
    Jfd = Jfd[:, cols]; Jfd2 = Jfd2[:, cols]
    fv = flat_cat(real, outs); xv = flat_cat(inputs, innames)
    ok, msg = core.close_jac(J, Jfd, rtol=5e-4, fvals=fv, xvals=xv, noise=1e-6, Jb2=Jfd2)
    if ok:
        return []
    return [_fail("reported derivatives differ from finite differences of the component's own compute()", msg, "equal",
                  component=name, nx=nx, ny=ny, symmetry=sym, branch=c.get("branch"))]


def register_jacobian(prop, components):
    if any(n.startswith("fd:") for n, _ in ORACLES.get(prop, [])):
        return
    for cname in components:
        def f(rng, tier, cname=cname):
            return jacobian_case(cname, rng, tier)
        ORACLES.setdefault(prop, []).append(("fd:" + cname, f))


# ---------------------------------------------------------------------------------------
# C14  mesh generators
# ---------------------------------------------------------------------------------------
@oracle("C14", "generate_mesh_invariants")
def c14_generate(rng, tier):
    from openaerostruct.geometry.utils import generate_mesh, getFullMesh
    nx = int(rng.integers(2, 8)); ny = int(rng.choice([3, 5, 7, 9, 13, 21]))
    wing = str(rng.choice(["rect", "rect", "CRM", "CRM:jig", "CRM:alpha_2.75"]))
    span = float(rng.uniform(2, 40)); chord = float(rng.uniform(0.3, 5))
    if CURRENT_K % 3 == 2:
        span = int(rng.integers(2, 40)); chord = int(rng.integers(1, 6))     # whole numbers given as Python ints
    scs = float(rng.choice([0.0, 1.0, rng.uniform(0, 1)])); ccs = float(rng.choice([0.0, 1.0, rng.uniform(0, 1)]))
    off = rng.normal(size=3) * 4 * float(rng.integers(2))
    base = dict(num_x=nx, num_y=ny, wing_type=wing, span_cos_spacing=scs, chord_cos_spacing=ccs, offset=off)
    if wing == "rect":
        base.update(span=span, root_chord=chord)
    def gen(sym, **kw):
        r = generate_mesh(dict(base, symmetry=sym, **kw))
        return np.array(r[0] if isinstance(r, tuple) else r, dtype=float)
    with quiet():
        full = gen(False); half = gen(True)
        noff = gen(False, offset=np.zeros(3))
    out = []
    case = dict(num_x=nx, num_y=ny, wing_type=wing, span_cos_spacing=scs, chord_cos_spacing=ccs)
    if full.shape != (nx, ny, 3) or half.shape != (nx, (ny + 1) // 2, 3):
        out.append(_fail("generated mesh has the wrong shape", [list(full.shape), list(half.shape)], [[nx, ny, 3], [nx, (ny + 1) // 2, 3]], **case))
        return out
    if not np.all(np.diff(full[:, :, 0], axis=0) > 0):
        out.append(_fail("x does not increase chordwise", float(np.min(np.diff(full[:, :, 0], axis=0))), ">0", **case))
    if not np.all(np.diff(full[:, :, 1], axis=1) > 0):
        out.append(_fail("y does not increase spanwise", float(np.min(np.diff(full[:, :, 1], axis=1))), ">0", **case))
    scale = max(np.max(np.abs(noff)), 1.0)
    if np.max(np.abs(full - (noff + off))) > 1e-13 * max(scale, np.max(np.abs(off))):
        out.append(_fail("the offset is not a pure translation", float(np.max(np.abs(full - (noff + off)))), 0.0, **case))
    if wing == "rect":
        if abs((noff[0, -1, 1] - noff[0, 0, 1]) - span) > 1e-12 * span or abs(noff[0, 0, 1] + span / 2) > 1e-12 * span:
            out.append(_fail("requested span not produced", [noff[0, 0, 1], noff[0, -1, 1]], [-span / 2, span / 2], **case))
        c = noff[-1, :, 0] - noff[0, :, 0]
        if np.max(np.abs(c - chord)) > 1e-12 * chord:
            out.append(_fail("requested root chord not produced", c, chord, **case))
        xi = noff[:, 0, 0] / chord
        u = np.linspace(0, 1, nx); cs_ = 0.5 * (1 - np.cos(np.linspace(0, np.pi, nx)))
        if np.max(np.abs(xi - (cs_ * ccs + (1 - ccs) * u))) > 1e-12:
            out.append(_fail("chordwise stations are not the requested blend of cosine and uniform spacing", xi, cs_ * ccs + (1 - ccs) * u, **case))
    mir = noff[:, ::-1, :] * np.array([1, -1, 1])
    if np.max(np.abs(mir - noff)) > 1e-12 * scale:
        out.append(_fail("full mesh is not mirror symmetric about y = 0", float(np.max(np.abs(mir - noff))), 0.0, **case))
    if not np.array_equal(half, full[:, : (ny + 1) // 2]):
        out.append(_fail("symmetric half mesh is not the left half of the full mesh", "differs", "identical", **case))
    hz = gen(True, offset=np.zeros(3)); fz = gen(False, offset=np.zeros(3))
    back = getFullMesh(left_mesh=hz)
    if np.max(np.abs(back - fz)) > 1e-12 * scale:
        out.append(_fail("mirroring the half mesh back does not reproduce the full mesh", float(np.max(np.abs(back - fz))), 0.0, **case))
    right = hz[:, ::-1].copy(); right[:, :, 1] *= -1
    back = getFullMesh(right_mesh=right)
    if np.max(np.abs(back - fz)) > 1e-12 * scale:
        out.append(_fail("getFullMesh(right half) does not reproduce the full mesh", float(np.max(np.abs(back - fz))), 0.0, **case))
    return out


@oracle("C14", "multi_section_geometry_group")
def c14_multisec_group(rng, tier):
    """the wiring of the run-time group `MultiSecGeometry` (section geometry groups -> unification component, joining component):
    the unified mesh it outputs is the unification of the meshes its own section groups output, and the joint separations are the
    corner-to-corner differences of those meshes along the requested axes.  (How the section design variables `span`, `taper`,
    `sweep` act on the generated section meshes is not part of the property and is not examined.)"""
    import openmdao.api as om
    from openaerostruct.geometry.geometry_group import MultiSecGeometry
    from openaerostruct.geometry.geometry_unification import unify_mesh
    n = int(rng.integers(2, 5)); nx = int(rng.integers(2, 5))
    ny = [int(rng.integers(2, 6)) for _ in range(n)]
    taper = [float(rng.choice([1.0, rng.uniform(0.5, 1.0)])) for _ in range(n)]
    span = [float(rng.uniform(0.5, 3)) for _ in range(n)]; sweep = [float(rng.uniform(0, 0.4)) for _ in range(n)]
    surface = dict(name="surface", num_sections=n, sec_name=["sec%d" % i for i in range(n)], symmetry=True, S_ref_type="wetted",
                   taper=taper, span=span, sweep=sweep, root_chord=float(rng.uniform(1, 3)), meshes="gen-meshes", nx=nx, ny=ny)
    masks = []
    for k in range(n - 1):
        mk = rng.integers(0, 2, size=3)
        if not mk.any():
            mk[0] = 1
        masks.append(np.array(mk, dtype=int))
    prob = om.Problem(reports=False)
    prob.model.add_subsystem("geom", MultiSecGeometry(surface=surface, joining_comp=True, dim_constr=masks, shift_uni_mesh=False))
    with quiet():
        prob.setup(); prob.run_model()
    out = []
    case = dict(sections=n, nx=nx, ny=ny, masks=[m.tolist() for m in masks])
    secs = [np.array(prob.get_val("geom.sec%d.mesh" % i)) for i in range(n)]
    uni = np.array(prob.get_val("geom.surface_unification.surface_uni_mesh"))
    req = unify_mesh([dict(mesh=m.copy()) for m in secs], shift_uni_mesh=False)
    if uni.shape != req.shape or np.max(np.abs(uni - req)) > 0:
        out.append(_fail("the unified mesh of MultiSecGeometry is not the unification of the meshes of its own sections",
                         list(uni.shape), list(req.shape), **case))
    sep = np.array(prob.get_val("geom.surface_joining.section_separation"))
    exp = []
    for k in range(n - 1):
        d = np.concatenate([secs[k + 1][0, 0] - secs[k][0, -1], secs[k + 1][-1, 0] - secs[k][-1, -1]]).reshape(2, 3)
        exp.append(d[:, masks[k].astype(bool)].ravel())
    exp = np.concatenate(exp)
    if sep.shape != exp.shape or np.max(np.abs(sep - exp)) > 1e-13:
        out.append(_fail("joint separations are not the corner differences of neighbouring section meshes along the requested axes", sep, exp, **case))
    return out


@oracle("C14", "multi_section_join_and_unify")
def c14_sections(rng, tier):
    from openaerostruct.geometry.geometry_mesh_gen import generate_mesh as gen_sections
    from openaerostruct.geometry.geometry_unification import unify_mesh
    n = int(rng.integers(2, 5)); nx = int(rng.integers(2, 5))
    ny = [int(rng.integers(2, 6)) for _ in range(n)]
    taper = [float(rng.choice([1.0, rng.uniform(0.5, 1.0)])) for _ in range(n)]
    span = [float(rng.uniform(0.5, 3)) for _ in range(n)]; sweep = [float(rng.uniform(0, 0.4)) for _ in range(n)]
    surface = dict(name="surface", num_sections=n, sec_name=["sec%d" % i for i in range(n)], symmetry=True, taper=taper, span=span,
                   sweep=sweep, root_chord=float(rng.uniform(1, 3)), meshes="gen-meshes", nx=nx, ny=ny)
    root = n - 1
    if CURRENT_K % 2 == 1:
        # a full-span multi-section surface: sections on both sides of the root section
        root = int(rng.integers(0, n))
        surface["symmetry"] = False; surface["root_section"] = root
    with quiet():
        mesh, secs = gen_sections(surface)
    out = []
    case = dict(sections=n, nx=nx, ny=ny, taper=taper, symmetry=surface["symmetry"], root_section=root)
    for i, sm in enumerate(secs):
        if sm.shape != (nx, ny[i], 3):
            out.append(_fail("section mesh has the wrong shape", list(sm.shape), [nx, ny[i], 3], **case))
    # every section has its requested span and its outboard chord is taper times its inboard chord
    for i, sm in enumerate(secs):
        if i == root and not surface["symmetry"]:
            continue        # the root section of a full-span surface is built by its own rule
        ext = abs(float(sm[0, -1, 1] - sm[0, 0, 1]))
        if abs(ext - span[i]) > 1e-12 * span[i]:
            out.append(_fail("a section does not have its requested span", ext, span[i], section=i, **case))
        inb, outb = (-1, 0) if i <= root else (0, -1)
        c_in = abs(float(sm[-1, inb, 0] - sm[0, inb, 0])); c_out = abs(float(sm[-1, outb, 0] - sm[0, outb, 0]))
        if abs(c_out - taper[i] * c_in) > 1e-12 * max(c_in, 1e-30):
            out.append(_fail("the outboard chord of a section is not taper times its inboard chord", c_out, taper[i] * c_in, section=i, **case))
    for i in range(n - 1):
        gap = float(np.max(np.abs(secs[i][:, -1, :] - secs[i + 1][:, 0, :])))
        if gap > 1e-12:
            out.append(_fail("neighbouring sections do not join with coincident edges", gap, 0.0, joint=i, **case))
    # unifying C0-continuous sections reproduces the contiguous surface node for node
    before = [np.array(sm).copy() for sm in secs]
    sections = [dict(mesh=sm, name="s%d" % i) for i, sm in enumerate(secs)]
    uni = unify_mesh(sections)
    req = np.concatenate([secs[0]] + [sm[:, 1:] for sm in secs[1:]], axis=1)
    if uni.shape != req.shape or np.max(np.abs(uni - req)) > 1e-12:
        out.append(_fail("unifying C0-continuous sections does not reproduce the contiguous surface", list(uni.shape), list(req.shape), **case))
    if any(not np.array_equal(a, b) for a, b in zip(before, secs)):
        out.append(_fail("unify_mesh modified the section meshes it was given", "changed", "unchanged", **case))
    return out


@oracle("C17", "total_performance_group")
def c17_total_performance(rng, tier):
    """the identities at the level of the TotalPerformance group (wiring included), load factor != 1"""
    from openaerostruct.functionals.total_performance import TotalPerformance
    import openmdao.api as om
    ns = int(rng.integers(1, 3))
    nx, ny = _pick_size(rng, tier)
    ss = [gen.base_surface(rng, nx, ny, bool(rng.integers(2)), name="s%d" % k) for k in range(ns)]
    prob = om.Problem(reports=False)
    ivc = om.IndepVarComp()
    vals = dict(v=float(rng.uniform(50, 250)), rho=float(rng.uniform(0.3, 1.2)), CT=float(rng.uniform(1e-5, 3e-4)), R=float(rng.uniform(1e5, 1e7)),
                Mach_number=float(rng.uniform(0.2, 0.85)), speed_of_sound=float(rng.uniform(290, 340)), W0=float(rng.uniform(1e3, 1e5)),
                load_factor=float(rng.choice([1.0, 2.5, -1.0, rng.uniform(0.5, 3)])))
    for k, v in vals.items():
        ivc.add_output(k, val=v)
    ecg = rng.normal(size=3) * 3
    ivc.add_output("empty_cg", val=ecg)
    data = []
    for s in ss:
        n = s["name"]; m = s["mesh"]; snx, sny = m.shape[:2]
        d = dict(CL=float(rng.uniform(0.1, 0.9)), CD=float(rng.uniform(0.01, 0.05)), S_ref=float(rng.uniform(10, 200)),
                 structural_mass=float(rng.uniform(100, 5e3)), cg_location=rng.normal(size=3) * 3,
                 b_pts=0.75 * m[:-1] + 0.25 * m[1:], widths=rng.uniform(0.3, 2, size=sny - 1), chords=rng.uniform(0.5, 3, size=sny),
                 sec_forces=rng.normal(size=(snx - 1, sny - 1, 3)) * 1e3)
        data.append(d)
        for k, v in d.items():
            ivc.add_output(n + "_" + k, val=v)
    prob.model.add_subsystem("ivc", ivc, promotes=["*"])
    prob.model.add_subsystem("tp", TotalPerformance(surfaces=ss, user_specified_Sref=False, internally_connect_fuelburn=True), promotes=["*"])
    with quiet():
        prob.setup(); prob.run_model()
    g = lambda k: np.array(prob.get_val(k), dtype=float)
    out = []
    lf = vals["load_factor"]
    case = dict(ns=ns, load_factor=lf)
    S = np.array([d["S_ref"] for d in data]); CL = np.array([d["CL"] for d in data]); CD = np.array([d["CD"] for d in data])
    sm = np.array([d["structural_mass"] for d in data])
    q = 0.5 * vals["rho"] * vals["v"] ** 2
    cl = np.sum(CL * S) / S.sum(); cd = np.sum(CD * S) / S.sum()
    if abs(g("CL")[0] - cl) > 1e-12 * abs(cl) or abs(g("L")[0] - q * S.sum() * cl) > 1e-10 * abs(q * S.sum() * cl):
        out.append(_fail("group: CL / L are not the area-weighted sum / q S CL", [g("CL")[0], g("L")[0]], [cl, q * S.sum() * cl], **case))
    fb = (vals["W0"] + sm.sum()) * (np.exp(vals["R"] * vals["CT"] / vals["speed_of_sound"] / vals["Mach_number"] * cd / cl) - 1)
    if abs(g("fuelburn")[0] - fb) > 1e-9 * abs(fb):
        out.append(_fail("group: fuel burn does not follow the Breguet range equation", g("fuelburn")[0], fb, **case))
    W = (vals["W0"] + sm.sum() + fb) * G * lf
    if abs(g("total_weight")[0] - W) > 1e-9 * abs(W) or abs(g("L_equals_W")[0] - (1 - q * S.sum() * cl / W)) > 1e-9:
        out.append(_fail("group: L_equals_W != 1 - L/W with W = (W0 + structure + fuel) g n", [g("total_weight")[0], g("L_equals_W")[0]], [W, 1 - q * S.sum() * cl / W], **case))
    cg = (vals["W0"] * ecg + sum(d["structural_mass"] * d["cg_location"] for d in data)) / (vals["W0"] + sm.sum())
    if np.max(np.abs(g("cg") - cg)) > 1e-9 * max(1.0, np.max(np.abs(cg))):
        out.append(_fail("group: the aircraft cg is not the mass-weighted mean (load factor must cancel)", g("cg"), cg, **case))
    # CM about that cg
    M = np.zeros(3); mac0 = None
    for k, (s, d) in enumerate(zip(ss, data)):
        pts = 0.5 * (d["b_pts"][:, 1:] + d["b_pts"][:, :-1])
        mom = np.cross(pts - cg, d["sec_forces"]).sum(axis=(0, 1))
        if s["symmetry"]:
            mom = np.array([0.0, 2 * mom[1], 0.0])
        M += mom
        if k == 0:
            pc = 0.5 * (d["chords"][1:] + d["chords"][:-1])
            mac0 = np.sum(pc ** 2 * d["widths"]) / d["S_ref"] * (2 if s["symmetry"] else 1)
    cm = M / (q * S.sum() * mac0)
    if np.max(np.abs(g("CM") - cm)) > 1e-8 * max(np.max(np.abs(cm)), 1e-9):
        out.append(_fail("group: CM is not the summed moment about the cg over q S MAC", g("CM"), cm, **case))
    return out


class Discard(Exception):
    """raised by an oracle when the generated case is outside the property's quantifier"""
from . import oracles_aero  # noqa: F401,E402
from . import oracles_struct  # noqa: F401,E402


# ---------------------------------------------------------------------------------------
# C04  the geometric design variables act identically on the half and on the full description
# ---------------------------------------------------------------------------------------
@oracle("C04", "half_vs_full_fuel")
def c04_half_full_fuel(rng, tier):
    """fuel loads and fuel-volume margin of a half model against the mirrored full-span model: the modelled half carries the same
    distributed fuel loads (its half share, reserve included) and the margin of the full model is twice that of the half"""
    from openaerostruct.structures.fuel_loads import FuelLoads
    from openaerostruct.structures.wingbox_fuel_vol_delta import WingboxFuelVolDelta
    nx, ny = _pick_size(rng, tier)
    ny = max(ny, 3)
    sh = gen.base_surface(rng, nx, ny, True, fem="wingbox", jitter=0.0)
    scale = float(10 ** rng.uniform(-4.5, 0)) if rng.uniform() < 0.3 else 1.0
    sh["Wf_reserve"] = float(rng.uniform(0, 2000.0)) * scale; sh["fuel_density"] = float(rng.uniform(700, 850))
    mh = sh["mesh"]
    mf = np.concatenate([mh, (mh[:, ::-1] * np.array([1.0, -1.0, 1.0]))[:, 1:]], axis=1)
    sf = dict(sh); sf["mesh"] = mf; sf["symmetry"] = gen.flag(rng, False)
    nodes_h = _nodes_of(sh); nodes_f = _nodes_of(sf)
    vh = rng.uniform(0.1, 2.0, size=ny - 1) * scale; vf = np.concatenate([vh, vh[::-1]])
    fm = float(rng.uniform(1e3, 3e4)) * scale; lf = float(rng.choice([1.0, 2.5, -1.0, rng.uniform(0.5, 3)]))
    out = []
    case = dict(ny=ny, reserve=sh["Wf_reserve"], load_factor=lf, scale=scale)
    ph = comp_problem(FuelLoads(surface=sh), dict(nodes=nodes_h, fuel_vols=vh, fuel_mass=fm, load_factor=lf))
    pf = comp_problem(FuelLoads(surface=sf), dict(nodes=nodes_f, fuel_vols=vf, fuel_mass=fm, load_factor=lf))
    lh = np.array(ph.get_val("fuel_weight_loads")); lfull = np.array(pf.get_val("fuel_weight_loads"))
    # the root node of the full model receives the contributions of both halves: compare the outboard nodes and the force totals
    if relerr(lh[:-1], lfull[:ny - 1]) > 1e-10:
        out.append(_fail("distributed fuel loads on the modelled half differ between the half and the full model", lh[0], lfull[0], **case))
    if abs(2 * lh[:, 2].sum() - lfull[:, 2].sum()) > 1e-10 * abs(lfull[:, 2].sum()):
        out.append(_fail("total fuel weight of the full model is not twice that of the half model", lfull[:, 2].sum(), 2 * lh[:, 2].sum(), **case))
    dh = float(comp_problem(WingboxFuelVolDelta(surface=sh), dict(fuelburn=fm, fuel_vols=vh)).get_val("fuel_vol_delta")[0])
    df = float(comp_problem(WingboxFuelVolDelta(surface=sf), dict(fuelburn=fm, fuel_vols=vf)).get_val("fuel_vol_delta")[0])
    if abs(df - 2 * dh) > 1e-10 * max(abs(df), vf.sum()):
        out.append(_fail("fuel-volume margin of the full model is not twice that of the half model", df, 2 * dh, **case))
    return out


@oracle("C04", "half_vs_full_geometry_dvs")
def c04_geometry_dvs(rng, tier):
    """the same surface dictionary (taper, sweep, dihedral, span, chord / twist distributions with equal control points)
    as a symmetric half model and as a full-span model: the left half of the full mesh is the half mesh"""
    from openaerostruct.geometry.utils import generate_mesh
    nx = int(rng.choice([2, 3])); ny2 = int(rng.choice([3, 4, 5]))
    span = float(rng.uniform(6, 14)); chord = float(rng.uniform(0.8, 2.0))
    base = dict(num_x=nx, num_y=2 * ny2 - 1, wing_type="rect", span=span, root_chord=chord, span_cos_spacing=float(rng.uniform(0, 1)))
    half = np.array(generate_mesh(dict(base, symmetry=True)), dtype=float)
    full = np.array(generate_mesh(dict(base, symmetry=False)), dtype=float)
    dvs = {}
    which = [k for k in ("taper", "sweep", "dihedral", "span", "chord_cp", "twist_cp") if rng.uniform() < 0.6] or ["taper"]
    if "taper" in which:
        dvs["taper"] = float(rng.uniform(0.3, 0.9))
    if "sweep" in which:
        dvs["sweep"] = float(rng.uniform(-20, 30))
    if "dihedral" in which:
        dvs["dihedral"] = float(rng.uniform(-5, 10))
    if "span" in which:
        dvs["span"] = span * float(rng.uniform(0.7, 1.4))
    if "chord_cp" in which:
        dvs["chord_cp"] = np.full(3, float(rng.uniform(0.6, 1.5)))
    if "twist_cp" in which:
        dvs["twist_cp"] = np.full(3, float(rng.uniform(-4, 4)))
    out = []
    def surf(mesh, sym):
        s = dict(name="wing", symmetry=sym, S_ref_type="wetted", mesh=mesh.copy())
        s.update({k: (np.array(v) if isinstance(v, np.ndarray) else v) for k, v in dvs.items()})
        return s
    mh = _run_geometry(surf(half, True)); mf = _run_geometry(surf(full, False))
    case = dict(nx=nx, ny_half=ny2, dvs={k: (float(np.atleast_1d(v)[0])) for k, v in dvs.items()})
    if relerr(mf[:, :ny2], mh) > 1e-10:
        out.append(_fail("the geometry group deforms the half model and the left half of the full-span model differently",
                         mf[:, :ny2][:, 0].ravel()[:6], mh[:, 0].ravel()[:6], **case))
    mirrored = mf[:, ::-1].copy(); mirrored[:, :, 1] *= -1
    if relerr(mirrored, mf) > 1e-10:
        out.append(_fail("the deformed full-span mesh of a mirror-symmetric wing is not mirror symmetric", mirrored[0, 0], mf[0, 0], **case))
    return out
