"""
Real-code oracles ("search"): each evaluates a property's own relation directly on OpenAeroStruct,
independently of the Lean model.  An oracle is a function  f(rng, tier) -> list of failures
for ONE randomly generated case; a failure is a dict(what=..., observed=..., required=..., case=...).
They are used (a) as a by-product check on every run (`relation_instances_checked`) and
(b) as the failing-input search when a proof obligation or a correspondence no longer checks.
"""
import numpy as np
from . import core, gen
from .core import comp_problem, quiet

ORACLES = {}


def oracle(prop, name):
    def deco(f):
        ORACLES.setdefault(prop, []).append((name, f))
        return f
    return deco


def relerr(a, b):
    a = np.asarray(a, dtype=float); b = np.asarray(b, dtype=float)
    s = max(np.max(np.abs(a)), np.max(np.abs(b)), 1e-300)
    return float(np.max(np.abs(a - b)) / s)


def _fail(what, observed, required, **case):
    return dict(what=what, observed=np.asarray(observed).tolist(), required=np.asarray(required).tolist(), case=case)


def _pick_size(rng, tier):
    sz = gen.sizes(tier)
    return sz[int(rng.integers(len(sz)))]


# ---------------------------------------------------------------------------------------
# C11
# ---------------------------------------------------------------------------------------
@oracle("C11", "load_transfer_conservation")
def c11_load_transfer(rng, tier):
    from openaerostruct.transfer.load_transfer import LoadTransfer
    nx, ny = _pick_size(rng, tier)
    sym = bool(rng.integers(2))
    s = gen.base_surface(rng, nx, ny, sym)
    F = rng.normal(size=(nx - 1, ny - 1, 3)) * 1e3
    mesh = s["mesh"]
    prob = comp_problem(LoadTransfer(surface=s), dict(def_mesh=mesh, sec_forces=F))
    loads = prob.get_val("loads")
    out = []
    tot = loads[:, :3].sum(axis=0)
    if relerr(tot, F.sum(axis=(0, 1))) > 1e-10:
        out.append(_fail("total nodal force != total panel force", tot, F.sum(axis=(0, 1)), nx=nx, ny=ny, symmetry=sym))
    w = s["fem_origin"]
    nodes = (1 - w) * mesh[0] + w * mesh[-1]
    qc = 0.75 * 0.5 * (mesh[:-1, :-1] + mesh[:-1, 1:]) + 0.25 * 0.5 * (mesh[1:, :-1] + mesh[1:, 1:])
    P = rng.normal(size=3) * 3
    m_nodal = loads[:, 3:].sum(axis=0) + np.cross(nodes - P, loads[:, :3]).sum(axis=0)
    m_panel = np.cross(qc - P, F).sum(axis=(0, 1))
    scale = max(np.abs(m_panel).max(), np.abs(F).max())
    if np.max(np.abs(m_nodal - m_panel)) > 1e-9 * scale:
        out.append(_fail("total nodal moment != total panel moment about a random point", m_nodal, m_panel,
                         nx=nx, ny=ny, symmetry=sym, point=P.tolist()))
    return out


@oracle("C11", "mesh_point_forces_conservation")
def c11_mesh_point_forces(rng, tier):
    from openaerostruct.aerodynamics.mesh_point_forces import MeshPointForces
    nx, ny = _pick_size(rng, tier)
    sym = bool(rng.integers(2))
    s = gen.base_surface(rng, nx, ny, sym)
    F = rng.normal(size=(nx - 1, ny - 1, 3)) * 1e3
    mesh = s["mesh"]
    prob = comp_problem(MeshPointForces(surfaces=[s]), {"wing_sec_forces": F})
    mpf = prob.get_val("wing_mesh_point_forces")
    out = []
    if relerr(mpf.sum(axis=(0, 1)), F.sum(axis=(0, 1))) > 1e-10:
        out.append(_fail("mesh-node forces do not sum to the panel forces", mpf.sum(axis=(0, 1)), F.sum(axis=(0, 1)),
                         nx=nx, ny=ny))
    qc = 0.75 * 0.5 * (mesh[:-1, :-1] + mesh[:-1, 1:]) + 0.25 * 0.5 * (mesh[1:, :-1] + mesh[1:, 1:])
    P = rng.normal(size=3) * 3
    m1 = np.cross(mesh - P, mpf).sum(axis=(0, 1))
    m2 = np.cross(qc - P, F).sum(axis=(0, 1))
    scale = max(np.abs(m2).max(), np.abs(F).max())
    if np.max(np.abs(m1 - m2)) > 1e-9 * scale:
        out.append(_fail("mesh-node force moment != panel force moment at quarter-chord points", m1, m2, nx=nx, ny=ny))
    return out


@oracle("C11", "displacement_transfer_rigid")
def c11_disp_transfer(rng, tier):
    from openaerostruct.transfer.displacement_transfer_group import DisplacementTransferGroup
    nx, ny = _pick_size(rng, tier)
    sym = bool(rng.integers(2))
    s = gen.base_surface(rng, nx, ny, sym)
    mesh = s["mesh"]
    w = s["fem_origin"]
    nodes = (1 - w) * mesh[0] + w * mesh[-1]
    out = []

    def run(disp):
        prob = comp_problem(DisplacementTransferGroup(surface=s), dict(mesh=mesh, nodes=nodes, disp=disp))
        return np.array(prob.get_val("def_mesh"))

    d0 = run(np.zeros((ny, 6)))
    if not np.array_equal(d0, mesh):
        out.append(_fail("zero displacement changes the mesh", d0, mesh, nx=nx, ny=ny))
    t = rng.normal(size=3)
    disp = np.zeros((ny, 6)); disp[:, :3] = t
    d1 = run(disp)
    if relerr(d1, mesh + t) > 1e-13:
        out.append(_fail("pure translation is not an exact translation", d1, mesh + t, nx=nx, ny=ny, t=t.tolist()))
    # first-order rotation: error must shrink quadratically
    a = rng.normal(size=(ny, 3))
    errs = []
    for eps in (1e-3, 1e-4):
        disp = np.zeros((ny, 6)); disp[:, 3:] = eps * a
        d = run(disp)
        lin = mesh + np.cross(eps * a[None, :, :], mesh - nodes[None, :, :])
        errs.append(np.max(np.abs(d - lin)))
    arm = np.max(np.abs(mesh - nodes[None])) * np.max(np.abs(a)) ** 2
    if errs[0] > 5 * (1e-3) ** 2 * arm + 1e-13 or errs[1] > 5 * (1e-4) ** 2 * arm + 1e-13:
        out.append(_fail("rotation is not a first-order rigid rotation about the structural node", errs,
                         [5e-6 * arm, 5e-8 * arm], nx=nx, ny=ny))
    return out


# ---------------------------------------------------------------------------------------
# C16
# ---------------------------------------------------------------------------------------
G = 9.80665


def _nodes_of(s):
    m = s["mesh"]; w = s["fem_origin"]
    return (1 - w) * m[0] + w * m[-1]


@oracle("C16", "mass_cg")
def c16_mass_cg(rng, tier):
    from openaerostruct.structures.weight import Weight
    from openaerostruct.structures.structural_cg import StructuralCG
    nx, ny = _pick_size(rng, tier)
    sym = bool(rng.integers(2))
    s = gen.base_surface(rng, nx, ny, sym)
    nodes = _nodes_of(s)
    A = rng.uniform(1e-3, 5e-2, size=ny - 1)
    p = comp_problem(Weight(surface=s), dict(A=A, nodes=nodes))
    sm = float(p.get_val("structural_mass")[0]); em = np.array(p.get_val("element_mass"))
    L = np.linalg.norm(nodes[1:] - nodes[:-1], axis=1)
    req = s["mrho"] * s["wing_weight_ratio"] * np.sum(A * L) * (2 if sym else 1)
    out = []
    if abs(sm - req) > 1e-10 * abs(req):
        out.append(_fail("structural mass != rho*wwr*sum(A L) (x2 if symmetric)", sm, req, ny=ny, symmetry=sym))
    p2 = comp_problem(StructuralCG(surface=s), dict(nodes=nodes, structural_mass=sm, element_mass=em))
    cg = np.array(p2.get_val("cg_location"))
    mid = 0.5 * (nodes[1:] + nodes[:-1])
    cen = (mid * em[:, None]).sum(axis=0) / em.sum()
    if sym:
        cen[1] = 0.0
    if np.max(np.abs(cg - cen)) > 1e-10 * max(np.abs(cen).max(), 1.0):
        out.append(_fail("cg is not the mass-weighted centroid", cg, cen, ny=ny, symmetry=sym))
    return out


def _check_loads(out, what, loads, nodes, F_req, M_req, **case):
    F = loads[:, :3].sum(axis=0)
    M = loads[:, 3:].sum(axis=0) + np.cross(nodes, loads[:, :3]).sum(axis=0)
    fs = max(np.abs(F_req).max(), 1e-30)
    if np.max(np.abs(F - F_req)) > 1e-9 * fs:
        out.append(_fail(what + ": total force", F, F_req, **case))
    ms = max(np.abs(M_req).max(), fs)
    if np.max(np.abs(M - M_req)) > 1e-8 * ms:
        out.append(_fail(what + ": total moment about the origin", M, M_req, **case))


@oracle("C16", "distributed_loads")
def c16_distributed(rng, tier):
    from openaerostruct.structures.wing_weight_loads import StructureWeightLoads
    from openaerostruct.structures.fuel_loads import FuelLoads
    from openaerostruct.structures.wingbox_fuel_vol_delta import WingboxFuelVolDelta
    nx, ny = _pick_size(rng, tier)
    sym = bool(rng.integers(2))
    s = gen.base_surface(rng, nx, ny, sym)
    s["Wf_reserve"] = float(rng.uniform(0, 2000.0)); s["fuel_density"] = float(rng.uniform(700, 850))
    nodes = _nodes_of(s)
    mid = 0.5 * (nodes[1:] + nodes[:-1])
    em = rng.uniform(1.0, 50.0, size=ny - 1)
    lf = float(rng.uniform(0.5, 2.5))
    out = []
    p = comp_problem(StructureWeightLoads(surface=s), dict(element_mass=em, nodes=nodes, load_factor=lf))
    W = em * G * lf
    Fe = np.zeros((ny - 1, 3)); Fe[:, 2] = -W
    _check_loads(out, "structural weight loads", np.array(p.get_val("struct_weight_loads")), nodes,
                 Fe.sum(axis=0), np.cross(mid, Fe).sum(axis=0), ny=ny, symmetry=sym)
    vols = rng.uniform(0.1, 2.0, size=ny - 1)
    fm = float(rng.uniform(1e3, 3e4))
    p = comp_problem(FuelLoads(surface=s), dict(nodes=nodes, fuel_vols=vols, fuel_mass=fm, load_factor=lf))
    fw = (fm + s["Wf_reserve"]) * G * lf / (2 if sym else 1)
    Fe = np.zeros((ny - 1, 3)); Fe[:, 2] = -fw * vols / vols.sum()
    _check_loads(out, "fuel weight loads", np.array(p.get_val("fuel_weight_loads")), nodes,
                 Fe.sum(axis=0), np.cross(mid, Fe).sum(axis=0), ny=ny, symmetry=sym)
    p = comp_problem(WingboxFuelVolDelta(surface=s), dict(fuelburn=fm, fuel_vols=vols))
    req = vols.sum() - (fm + s["Wf_reserve"]) / (2 if sym else 1) / s["fuel_density"]
    got = float(p.get_val("fuel_vol_delta")[0])
    if abs(got - req) > 1e-10 * max(abs(req), vols.sum()):
        out.append(_fail("fuel volume margin != enclosed volume - required fuel volume", got, req, ny=ny, symmetry=sym))
    return out


@oracle("C16", "point_loads")
def c16_point_loads(rng, tier):
    from openaerostruct.structures.compute_point_mass_loads import ComputePointMassLoads
    from openaerostruct.structures.compute_thrust_loads import ComputeThrustLoads
    from openaerostruct.structures.total_loads import TotalLoads
    nx, ny = _pick_size(rng, tier)
    sym = bool(rng.integers(2))
    s = gen.base_surface(rng, nx, ny, sym)
    npm = int(rng.integers(1, 4)); s["n_point_masses"] = npm
    nodes = _nodes_of(s)
    locs = np.array([nodes[rng.integers(ny)] + rng.normal(size=3) * np.array([0.5, 0.4, 0.3]) for _ in range(npm)])
    masses = rng.uniform(100, 5000, size=npm); thr = rng.uniform(1e3, 1e5, size=npm)
    lf = float(rng.uniform(0.5, 2.5))
    out = []
    p = comp_problem(ComputePointMassLoads(surface=s), dict(point_mass_locations=locs, point_masses=masses, nodes=nodes, load_factor=lf))
    Fp = np.zeros((npm, 3)); Fp[:, 2] = -masses * G * lf
    pml = np.array(p.get_val("loads_from_point_masses"))
    _check_loads(out, "point-mass loads", pml, nodes, Fp.sum(axis=0), np.cross(locs, Fp).sum(axis=0), ny=ny, n=npm)
    w = np.array(p.get_val("nodal_weightings"))
    if np.max(np.abs(w.sum(axis=1) - 1)) > 1e-12:
        out.append(_fail("nodal weightings do not sum to 1", w.sum(axis=1), np.ones(npm), ny=ny))
    p = comp_problem(ComputeThrustLoads(surface=s), dict(point_mass_locations=locs, engine_thrusts=thr, nodes=nodes))
    Ft = np.zeros((npm, 3)); Ft[:, 0] = -thr
    tl = np.array(p.get_val("loads_from_thrusts"))
    _check_loads(out, "thrust loads", tl, nodes, Ft.sum(axis=0), np.cross(locs, Ft).sum(axis=0), ny=ny, n=npm)
    relief, fuel = bool(rng.integers(2)), bool(rng.integers(2))
    s["struct_weight_relief"] = relief; s["distributed_fuel_weight"] = fuel
    inp = dict(loads=rng.normal(size=(ny, 6)) * 1e3, loads_from_point_masses=pml, loads_from_thrusts=tl)
    req = inp["loads"] + pml + tl
    if relief:
        inp["struct_weight_loads"] = rng.normal(size=(ny, 6)) * 1e3; req = req + inp["struct_weight_loads"]
    if fuel:
        inp["fuel_weight_loads"] = rng.normal(size=(ny, 6)) * 1e3; req = req + inp["fuel_weight_loads"]
    p = comp_problem(TotalLoads(surface=s), inp)
    got = np.array(p.get_val("total_loads"))
    if relerr(got, req) > 1e-13:
        out.append(_fail("total loads != sum of enabled sources", got, req, ny=ny, relief=relief, fuel=fuel))
    return out


class Discard(Exception):
    """raised by an oracle when the generated case is outside the property's quantifier"""
