"""Structured, mostly-valid input generators built from the repository's own types."""
import numpy as np
from .core import rng_for
from openaerostruct.geometry.utils import generate_mesh


def rand_mesh(rng, nx, ny, symmetry, right=False, planar=False, jitter=0.01, span=None):
    """a non-degenerate [nx, ny, 3] mesh: real generate_mesh output + random planform/shape.

    symmetry=True : half mesh with ny spanwise nodes (left half, root last; right=True mirrors it)
    symmetry=False: full-span mesh with ny nodes (ny odd for rect generator; even ny built by
                    dropping the generator and using a uniform grid)
    """
    span_given = span is not None
    span = float(rng.uniform(4.0, 14.0)) if span is None else span
    chord = float(rng.uniform(0.6, 2.5))
    if not span_given and rng.uniform() < 0.25:
        # overall size: from a hand-launched UAV (span of a few decimetres) to a very large transport
        k = float(10 ** rng.uniform(-1.3, 0.7)); span *= k; chord *= k
    num_y = 2 * ny - 1 if symmetry else ny
    if num_y % 2 == 1 and num_y >= 3:
        md = dict(num_x=nx, num_y=num_y, wing_type="rect", symmetry=symmetry, span=span, root_chord=chord,
                  span_cos_spacing=float(rng.uniform(0, 1)), chord_cos_spacing=float(rng.uniform(0, 1)))
        mesh = generate_mesh(md)
    else:
        y = np.linspace(-span / 2, 0.0 if symmetry else span / 2, ny)
        x = np.linspace(0, chord, nx)
        mesh = np.zeros((nx, ny, 3))
        mesh[:, :, 0] = x[:, None]
        mesh[:, :, 1] = y[None, :]
    mesh = np.array(mesh, dtype=float)
    assert mesh.shape == (nx, ny, 3), (mesh.shape, nx, ny)
    y = mesh[0, :, 1].copy()
    eta = np.abs(y) / (span / 2)
    taper = rng.uniform(0.3, 1.0)
    sweep = np.tan(np.radians(rng.uniform(-10, 35)))
    dihedral = 0.0 if planar else np.tan(np.radians(rng.uniform(-5, 12)))
    le = mesh[0].copy()
    for i in range(nx):
        mesh[i, :, 0] = le[:, 0] + (mesh[i, :, 0] - le[:, 0]) * (1 - (1 - taper) * eta) + sweep * np.abs(y)
        mesh[i, :, 2] += dihedral * np.abs(y)
    if not planar:
        # camber and twist
        xi = np.linspace(0, 1, nx)
        camber = rng.uniform(0, 0.05) * chord * 4 * xi * (1 - xi)
        twist = np.radians(rng.uniform(-4, 4)) * eta
        for i in range(nx):
            mesh[i, :, 2] += camber[i] - (mesh[i, :, 0] - mesh[0, :, 0]) * np.tan(twist)
    if jitter:
        j = rng.uniform(-jitter, jitter, size=mesh.shape) * chord / max(nx, 2)
        if symmetry:
            j[:, -1, 1] = 0.0  # keep the root on the symmetry plane
        mesh = mesh + j
    if right:
        mesh = mesh[:, ::-1, :].copy()
        mesh[:, :, 1] *= -1.0
    return np.ascontiguousarray(mesh)


def flag(rng, b):
    """a boolean option the way user scripts produce it: mostly a Python bool, sometimes the numpy.bool_ of a comparison such as
    `mesh[0, -1, 1] == 0.0`, sometimes the 0/1 of a configuration file – all of them truthy/falsy in the same way"""
    u = rng.uniform()
    return bool(b) if u < 0.7 else (np.bool_(b) if u < 0.9 else int(bool(b)))


def flagify(rng, s):
    """draw the type of every boolean option of a surface dictionary (see `flag`); the truth values are kept"""
    for k, v in list(s.items()):
        if isinstance(v, (bool, np.bool_)):
            s[k] = flag(rng, v)
    return s


def base_surface(rng, nx, ny, symmetry, name="wing", right=False, fem="tube", **kw):
    mesh = rand_mesh(rng, nx, ny, symmetry, right=right, **kw)
    s = {
        "name": name, "symmetry": flag(rng, symmetry), "S_ref_type": rng.choice(["wetted", "projected"]).item(),
        "fem_model_type": fem, "mesh": mesh,
        "twist_cp": np.zeros(2), "thickness_cp": np.array([0.1, 0.2]) * 0.3,
        "CL0": 0.0, "CD0": 0.015, "k_lam": 0.05, "t_over_c_cp": np.array([0.15]), "c_max_t": 0.303,
        "with_viscous": True, "with_wave": False,
        "E": 70.0e9, "G": 30.0e9, "yield": 500.0e6 / 2.5, "mrho": 3.0e3,
        "fem_origin": float(rng.choice([rng.uniform(0.0, 1.0), rng.uniform(0.2, 0.6), 0.0, 1.0], p=[0.4, 0.4, 0.1, 0.1])), "wing_weight_ratio": float(rng.uniform(1.0, 2.5)),
        "struct_weight_relief": False, "distributed_fuel_weight": False, "exact_failure_constraint": False,
    }
    return flagify(rng, s)


def sizes(tier, kind="small"):
    if tier == "thorough":
        # twice the quick grid plus larger and more slender lattices; kept small enough that the dense dual-number Jacobians of
        # all 73 components finish in tens of minutes
        return [(2, 2), (2, 3), (3, 2), (3, 4), (2, 5), (4, 3), (5, 2), (3, 3), (4, 5), (3, 7), (2, 9), (5, 4)]
    return [(2, 2), (2, 3), (3, 2), (3, 4), (2, 5), (4, 3)]
