"""Correspondence suites: real component vs Lean model (values and Jacobians)."""
import time, traceback
import numpy as np
from . import core, gen
from .core import (comp_problem, comp_outputs, comp_jacobian, flat_cat, encode_line, run_driver,
                   DriverError, close_vec, close_jac, case_hash)
from .specs import SPECS


class Stats:
    def __init__(self):
        self.evaluations = 0
        self.hashes = set()
        self.nontrivial = set()
        self.samples = []
        self.per_suite = {}
        self.disagreements = []
        self.hist = {}
        self.discarded = 0
        self.relation_instances = 0

    def count(self, suite, h, nontrivial, hist_keys=()):
        self.evaluations += 1
        self.per_suite[suite] = self.per_suite.get(suite, 0) + 1
        self.hashes.add(h)
        if nontrivial:
            self.nontrivial.add(h)
        for k in hist_keys:
            self.hist[k] = self.hist.get(k, 0) + 1

    def sample(self, s, cap=6):
        if len(self.samples) < cap:
            self.samples.append(s)


def component_case(name, rng, nx, ny, sym):
    sp = SPECS[name]
    c = sp["build"](rng, nx, ny, sym)
    c["name"] = name
    c["op"] = sp["op"]
    c["size"] = (nx, ny, sym)
    return c


def run_component_case(c, want_jac=True):
    """returns list of disagreement dicts (empty = agrees) and a summary"""
    out = []
    inputs = c["inputs"]; outputs = c["outputs"]
    prob = comp_problem(c["factory"](), inputs)
    real = comp_outputs(prob, outputs)
    real_flat = flat_cat(real, outputs)
    consts = list(c.get("consts", []))
    in_flat = flat_cat(inputs, list(inputs))
    post = np.asarray(c.get("post_consts", []), dtype=float).ravel()
    floats = np.concatenate([np.array(consts, dtype=float), in_flat, post])
    vtol = c.get("vtol", 1e-9)
    jtol = c.get("jtol", 1e-7)
    if want_jac and c.get("jac", True):
        wrt = list(range(len(consts), len(consts) + len(in_flat)))
        mval, mJ = core.model_jacobian(c["op"], c["ints"], floats, wrt)
        osz = {o: real[o].size for o in outputs}
        isz = {i: np.asarray(inputs[i]).size for i in inputs}
        rJ = core.dense_from_blocks(comp_jacobian(prob, outputs, list(inputs)), outputs, list(inputs), osz, isz)
        ok, msg = close_jac(rJ, mJ, rtol=jtol, atol=c.get("jatol", 0.0), fvals=real_flat, xvals=in_flat)
        if not ok:
            out.append(dict(kind="jacobian", component=c["name"], size=c["size"], detail=msg))
    else:
        mval = core.model_value(c["op"], c["ints"], floats)
    ok, msg = close_vec(real_flat, mval, rtol=vtol, atol=c.get("vatol", 0.0))
    if not ok:
        out.append(dict(kind="value", component=c["name"], size=c["size"], detail=msg))
    nontrivial = bool(np.any(np.abs(real_flat) > 0))
    return out, dict(nontrivial=nontrivial, hash=case_hash(c["name"], c["ints"], floats),
                     n_in=int(in_flat.size), n_out=int(real_flat.size))


def component_suite(names, stats, tier=None, reps=None, want_jac=True, label="component", value_only=()):
    tier = tier or core.TIER
    reps = reps if reps is not None else (3 if tier == "thorough" else 1)
    for name in names:
        sp = SPECS[name]
        for (nx, ny) in gen.sizes(tier):
            if ny < sp["min_ny"]:
                continue
            for sym in sp["sym_opts"]:
                for rep in range(reps):
                    rng = core.rng_for("comp", name, nx, ny, sym, rep)
                    try:
                        c = component_case(name, rng, nx, ny, sym)
                        dis, info = run_component_case(c, want_jac=want_jac and sp["jac"] and name not in value_only)
                    except DriverError as e:
                        dis = [dict(kind="driver-error", component=name, size=(nx, ny, sym), detail=str(e))]
                        info = dict(nontrivial=False, hash=case_hash(name, nx, ny, sym, rep), n_in=0, n_out=0)
                    stats.count("%s:%s" % (label, name), info["hash"], info["nontrivial"],
                                ("size=%dx%d" % (nx, ny), "symmetry=%s" % sym))
                    for d in dis:
                        d["seed_keys"] = ["comp", name, nx, ny, sym, rep]
                        stats.disagreements.append(d)
                    if rep == 0 and (nx, ny) == gen.sizes(tier)[0]:
                        stats.sample(dict(suite=label, component=name, nx=nx, ny=ny, symmetry=sym,
                                          n_inputs=info["n_in"], n_outputs=info["n_out"]))
    return stats
