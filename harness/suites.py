"""Correspondence suites: real component vs Lean model (values and Jacobians)."""
import time, traceback
import numpy as np
from . import core, gen
from .core import (quiet, comp_problem, comp_outputs, comp_jacobian, flat_cat, encode_line, run_driver,
                   DriverError, close_vec, close_jac, case_hash)
from .specs import SPECS


class Stats:
    def __init__(self):
        self.evaluations = 0
        self.hashes = set()
        self.nontrivial = set()
        self.samples = []
        self.per_suite = {}
        self.disagreements = []
        self.hist = {}
        self.discarded = 0
        self.relation_instances = 0

    def count(self, suite, h, nontrivial, hist_keys=()):
        self.evaluations += 1
        self.per_suite[suite] = self.per_suite.get(suite, 0) + 1
        self.hashes.add(h)
        if nontrivial:
            self.nontrivial.add(h)
        for k in hist_keys:
            self.hist[k] = self.hist.get(k, 0) + 1

    def sample(self, s, cap=6):
        if len(self.samples) < cap:
            self.samples.append(s)


def component_case(name, rng, nx, ny, sym):
    sp = SPECS[name]
    c = sp["build"](rng, nx, ny, sym)
    c["name"] = name
    c["op"] = sp["op"]
    c["size"] = (nx, ny, sym)
    return c


def run_component_case(c, want_jac=True):
    """returns list of disagreement dicts (empty = agrees) and a summary"""
    out = []
    inputs = c["inputs"]; outputs = c["outputs"]
    allin = dict(inputs); allin.update(c.get("extra_inputs", {}))
    prob = comp_problem(c["factory"](), allin)
    real = comp_outputs(prob, outputs)
    real_flat = flat_cat(real, outputs)
    consts = list(c.get("consts", []))
    in_flat = flat_cat(inputs, list(inputs))
    post = np.asarray(c.get("post_consts", []), dtype=float).ravel()
    floats = np.concatenate([np.array(consts, dtype=float), in_flat, post])
    vtol = c.get("vtol", 1e-9)
    jtol = c.get("jtol", 1e-7)
    if want_jac and c.get("jac", True):
        wrt = list(range(len(consts), len(consts) + len(in_flat)))
        mval, mJ = core.model_jacobian(c["op"], c["ints"], floats, wrt)
        osz = {o: real[o].size for o in outputs}
        isz = {i: np.asarray(inputs[i]).size for i in inputs}
        rJ = core.dense_from_blocks(comp_jacobian(prob, outputs, list(inputs)), outputs, list(inputs), osz, isz)
        fv = real_flat
        if c.get("jrowscale"):
            # outputs of very different magnitudes (atmosphere: T ~ 4e2 … mu ~ 3e-7): compare the Jacobians of the outputs relative to
            # their own values, so that the column-relative tolerance means the same for every row
            sc = 1.0 / np.maximum(np.abs(real_flat), 1e-300)
            rJ = rJ * sc[:, None]; mJ = mJ * sc[:, None]; fv = np.ones_like(real_flat)
        ok, msg = close_jac(rJ, mJ, rtol=jtol, atol=c.get("jatol", 0.0), fvals=fv, xvals=in_flat)
        if not ok:
            out.append(dict(kind="jacobian", component=c["name"], size=c["size"], detail=msg))
    else:
        mval = core.model_value(c["op"], c["ints"], floats)
    ok, msg = close_vec(real_flat, mval, rtol=vtol, atol=c.get("vatol", 0.0))
    if not ok:
        out.append(dict(kind="value", component=c["name"], size=c["size"], detail=msg))
    pats = c.get("pattern") or []
    for pt in ([pats] if isinstance(pats, dict) else pats):
        # the declared sparsity arrays themselves (rows, cols and, for constant partials, val) against the transliterated pattern
        comp = prob.model.c
        info = comp._subjacs_info.get((comp.pathname + "." + pt["of"], comp.pathname + "." + pt["wrt"]))
        mp = core.model_value(pt["op"], pt["ints"], np.asarray(pt.get("floats", []), dtype=float))
        if info is None or info.get("rows") is None:
            out.append(dict(kind="pattern", component=c["name"], size=c["size"], detail="no declared rows/cols for (%s, %s)" % (pt["of"], pt["wrt"])))
        else:
            rows = np.asarray(info["rows"], dtype=float); cols = np.asarray(info["cols"], dtype=float)
            parts = [rows, cols] + ([np.asarray(info["val"], dtype=float).ravel()] if pt.get("val", True) else [])
            decl = np.concatenate(parts)
            if decl.shape != mp.shape or not np.array_equal(decl, mp):
                out.append(dict(kind="pattern", component=c["name"], size=c["size"],
                                detail="declared rows/cols/val of (%s, %s) differ from the transliterated pattern: %s vs %s"
                                       % (pt["of"], pt["wrt"], decl.tolist()[:24], mp.tolist()[:24])))
    nontrivial = bool(np.any(np.abs(real_flat) > 0))
    return out, dict(nontrivial=nontrivial, hash=case_hash(c["name"], c["ints"], floats),
                     n_in=int(in_flat.size), n_out=int(real_flat.size))


def component_suite(names, stats, tier=None, reps=None, want_jac=True, label="component", value_only=()):
    tier = tier or core.TIER
    reps = reps if reps is not None else (2 if tier == "thorough" else 1)
    for name in names:
        sp = SPECS[name]
        for (nx, ny) in gen.sizes(tier):
            if ny < sp["min_ny"]:
                continue
            for sym in sp["sym_opts"]:
                for rep in range(reps):
                    rng = core.rng_for("comp", name, nx, ny, sym, rep)
                    try:
                        c = component_case(name, rng, nx, ny, sym)
                        dis, info = run_component_case(c, want_jac=want_jac and sp["jac"] and name not in value_only)
                    except DriverError as e:
                        if "timed out" in str(e) or "not built" in str(e):
                            raise
                        dis = [dict(kind="driver-error", component=name, size=(nx, ny, sym), detail=str(e))]
                        info = dict(nontrivial=False, hash=case_hash(name, nx, ny, sym, rep), n_in=0, n_out=0)
                    except Exception as e:      # the real component raised on a generated (admissible) case
                        dis = [dict(kind="real-code-exception", component=name, size=(nx, ny, sym),
                                    detail="%s: %s" % (type(e).__name__, str(e)[:300]))]
                        info = dict(nontrivial=False, hash=case_hash(name, nx, ny, sym, rep), n_in=0, n_out=0)
                    stats.count("%s:%s" % (label, name), info["hash"], info["nontrivial"],
                                ("size=%dx%d" % (nx, ny), "symmetry=%s" % sym))
                    for d in dis:
                        d["seed_keys"] = ["comp", name, nx, ny, sym, rep]
                        stats.disagreements.append(d)
                    if rep == 0 and (nx, ny) == gen.sizes(tier)[0]:
                        stats.sample(dict(suite=label, component=name, nx=nx, ny=ny, symmetry=sym,
                                          n_inputs=info["n_in"], n_outputs=info["n_out"]))
    return stats


# ----------------------------------------------------------------------------------------
# end-to-end: real AeroPoint vs the model's VLMStates pipeline
# ----------------------------------------------------------------------------------------
def aero_case(rng, tier, force=None):
    from . import pipelines
    force = force or {}
    ns = force.get("ns", int(rng.choice([1, 1, 2, 3])))
    ground = force.get("ground", bool(rng.uniform() < 0.25))
    rotational = force.get("rotational", bool(rng.uniform() < 0.3))
    surfaces = []
    sizes = [(2, 2), (2, 3), (3, 3), (2, 4), (3, 2)] if tier == "quick" else [(2, 2), (2, 3), (3, 3), (2, 5), (4, 3), (3, 6), (5, 4)]
    for k in range(ns):
        nx, ny = sizes[int(rng.integers(len(sizes)))]
        sym = True if ground else bool(rng.integers(2))
        if not sym and ny % 2 == 0:
            ny += 1
        right = bool(sym and rng.uniform() < 0.35)
        mesh = gen.rand_mesh(rng, nx, ny, sym, right=right)
        mesh[:, :, 0] += 5.0 * k
        mesh[:, :, 2] += 0.8 * k
        s = pipelines.aero_surface("surf%d" % k, mesh, sym, S_ref_type=str(rng.choice(["wetted", "projected"])))
        if ground:
            s["groundplane"] = True
        surfaces.append(s)
    flow = dict(alpha=float(rng.uniform(-15, 15)), beta=0.0 if ground or any(s["symmetry"] for s in surfaces) and rng.uniform() < 0.5
                else float(rng.uniform(-15, 15)),
                v=float(rng.uniform(20, 250)), rho=float(rng.uniform(0.3, 1.25)), cg=rng.normal(size=3) * 2,
                omega=rng.normal(size=3) * 0.2, height_agl=float(rng.uniform(2, 60)))
    return surfaces, flow, rotational


def model_vlm_states(surfaces, flow, rotational, meshes=None):
    from .pipelines import left_flag
    ints = [int(rotational), len(surfaces)]
    fl = [flow["alpha"], flow["beta"], flow["v"], flow["rho"]] + list(flow["omega"]) + list(flow["cg"]) + [flow.get("height_agl", 0.0)]
    for k, s in enumerate(surfaces):
        m = s["mesh"]
        ints += [m.shape[0], m.shape[1], int(s["symmetry"]), int(left_flag(m)), int(bool(s.get("groundplane", False)))]
        fl += list(np.asarray(m if meshes is None else meshes[k], dtype=float).ravel())
    out = core.model_value("VLMStates", ints, np.array(fl))
    N = sum((s["mesh"].shape[0] - 1) * (s["mesh"].shape[1] - 1) for s in surfaces)
    return dict(circulations=out[:N], panel_forces=out[N:4 * N].reshape(N, 3), mtx=out[4 * N:4 * N + N * N].reshape(N, N),
                rhs=out[4 * N + N * N:])


def aero_pipeline_suite(stats, tier=None, n=None, label="pipeline:AeroPoint"):
    from . import pipelines
    tier = tier or core.TIER
    n = n if n is not None else (8 if tier == "quick" else 60)
    for k in range(n):
        rng = core.rng_for("aero_pipeline", k)
        surfaces, flow, rotational = aero_case(rng, tier)
        try:
            prob = pipelines.run_aero_point(surfaces, flow, rotational=rotational)
        except Exception as e:
            stats.disagreements.append(dict(kind="real-code-exception", component="AeroPoint", size=[s["mesh"].shape[:2] for s in surfaces],
                                            detail="%s: %s" % (type(e).__name__, str(e)[:300]), seed_keys=["aero_pipeline", k]))
            stats.count(label, case_hash("aero-exc", k), False)
            continue
        real = pipelines.aero_outputs(prob, surfaces)
        mod = model_vlm_states(surfaces, flow, rotational)
        real_forces = np.concatenate([real[s["name"]]["sec_forces"].reshape(-1, 3) for s in surfaces])
        real_mtx = np.array(prob.get_val("pt.aero_states.mtx")); real_rhs = np.array(prob.get_val("pt.aero_states.rhs"))
        cond = float(np.linalg.cond(real_mtx))
        tol = 1e-9 + 1e-13 * cond
        for what, a, b, t in (("mtx", real_mtx, mod["mtx"], 1e-9), ("rhs", real_rhs, mod["rhs"], 1e-9),
                              ("circulations", real["circulations"], mod["circulations"], tol),
                              ("sec_forces", real_forces, mod["panel_forces"], tol)):
            ok, msg = close_vec(a, b, rtol=t)
            if not ok:
                stats.disagreements.append(dict(kind="pipeline-value", component="AeroPoint:" + what, size=[s["mesh"].shape[:2] for s in surfaces],
                                                detail=msg, seed_keys=["aero_pipeline", k]))
        h = case_hash("aero", k, flow["alpha"], surfaces[0]["mesh"])
        stats.count(label, h, bool(np.any(np.abs(real_forces) > 0)),
                    ("surfaces=%d" % len(surfaces), "ground=%s" % any(s.get("groundplane", False) for s in surfaces),
                     "rotational=%s" % rotational, "sideslip=%s" % (flow["beta"] != 0)))
        if k == 0:
            stats.sample(dict(suite=label, surfaces=[dict(shape=list(s["mesh"].shape), symmetry=s["symmetry"]) for s in surfaces],
                              flow={kk: (vv if np.isscalar(vv) else list(vv)) for kk, vv in flow.items()}, rotational=rotational,
                              CL=real["CL"], cond=cond))
    return stats


def model_compressible_states(surfaces, flow, rotational=False):
    from .pipelines import left_flag
    ints = [int(rotational), len(surfaces)]
    fl = [flow["alpha"], flow["beta"], flow["v"], flow["rho"], flow["Mach_number"]] + list(flow["omega"]) + list(flow["cg"])
    for s in surfaces:
        m = s["mesh"]
        ints += [m.shape[0], m.shape[1], int(s["symmetry"]), int(left_flag(m)), 0]
        fl += list(np.asarray(m, dtype=float).ravel())
    N = sum((s["mesh"].shape[0] - 1) * (s["mesh"].shape[1] - 1) for s in surfaces)
    return core.model_value("CompressibleStates", ints, np.array(fl)).reshape(N, 3)


def compressible_pipeline_suite(stats, tier=None, n=None, label="pipeline:CompressibleAeroPoint"):
    """real AeroPoint(compressible=True) (PGTransform -> incompressible states -> InversePGTransform) vs the model's
    CompressibleStates pipeline (PG.toWind / scale* / fromWind around the same vlmCore)."""
    from . import pipelines
    tier = tier or core.TIER
    n = n if n is not None else (5 if tier == "quick" else 40)
    for k in range(n):
        rng = core.rng_for("compressible_pipeline", k)
        surfaces, flow, rotational = aero_case(rng, tier, force=dict(ground=False))
        flow["Mach_number"] = float(rng.uniform(0.05, 0.88))
        try:
            prob = pipelines.run_aero_point(surfaces, flow, compressible=True, rotational=rotational)
        except Exception as e:
            stats.disagreements.append(dict(kind="real-code-exception", component="AeroPoint(compressible)",
                                            detail="%s: %s" % (type(e).__name__, str(e)[:300]), seed_keys=["compressible_pipeline", k]))
            stats.count(label, case_hash("comp-exc", k), False)
            continue
        real = pipelines.aero_outputs(prob, surfaces)
        real_forces = np.concatenate([real[s["name"]]["sec_forces"].reshape(-1, 3) for s in surfaces])
        mod = model_compressible_states(surfaces, flow, rotational)
        cond = float(np.linalg.cond(np.array(prob.get_val("pt.aero_states.mtx"))))
        ok, msg = close_vec(real_forces, mod, rtol=1e-9 + 1e-13 * cond)
        if not ok:
            stats.disagreements.append(dict(kind="pipeline-value", component="AeroPoint(compressible):sec_forces",
                                            size=[s["mesh"].shape[:2] for s in surfaces], detail=msg, seed_keys=["compressible_pipeline", k]))
        stats.count(label, case_hash("comp", k, flow["Mach_number"], surfaces[0]["mesh"]), bool(np.any(np.abs(real_forces) > 0)),
                    ("surfaces=%d" % len(surfaces), "sideslip=%s" % (flow["beta"] != 0), "Mach>0.5=%s" % (flow["Mach_number"] > 0.5),
                     "rotational=%s" % rotational))
        if k == 0:
            stats.sample(dict(suite=label, Mach=flow["Mach_number"], alpha=flow["alpha"], CL=real["CL"], cond=cond))
    return stats


def aerostruct_pipeline_suite(stats, tier=None, n=None, label="pipeline:AerostructPoint.coupled"):
    """real AerostructGeometry + AerostructPoint (NLBGS to 1e-13) vs the model's own block Gauss-Seidel fixed point of
    DisplacementTransfer -> VLM states -> LoadTransfer -> FEM solve, on the same mesh, nodes and element stiffnesses."""
    from . import pipelines
    tier = tier or core.TIER
    n = n if n is not None else (3 if tier == "quick" else 20)
    for k in range(n):
        rng = core.rng_for("aerostruct_pipeline", k)
        nx = int(rng.choice([2, 3])); ny = int(rng.choice([3, 4, 5] if tier == "quick" else [3, 4, 5, 7]))
        sym = bool(rng.integers(2))
        if not sym and ny % 2 == 0:
            ny += 1
        mesh = gen.rand_mesh(rng, nx, ny, sym)
        mesh[:, :, 1] *= 4.0; mesh[:, :, 0] *= 1.5                      # a wing-sized planform: span ~ several metres
        s = pipelines.struct_surface("wing", mesh, sym, fem_origin=float(rng.uniform(0.25, 0.5)), with_viscous=False,
                                     thickness_cp=rng.uniform(0.008, 0.03, size=2))
        flow = dict(alpha=float(rng.uniform(-4, 8)), beta=0.0 if sym else float(rng.uniform(-5, 5)), v=float(rng.uniform(30, 80)),
                    rho=float(rng.uniform(0.4, 1.2)), Mach_number=0.0)
        import openaerostruct.integration.aerostruct_groups as ag
        prob = pipelines.build_aerostruct([s], [flow], nonlinear="nlbgs", aitken=False)
        # the pinned AerostructPoint uses the compressible states; at Mach 0 they coincide with the modelled incompressible ones
        real_failed = None
        try:
            with core.quiet():
                prob.run_model()
        except Exception as e:
            real_failed = "%s: %s" % (type(e).__name__, str(e)[:300])
        if real_failed is None and not np.all(np.isfinite(np.array(prob.get_val("AS_point_0.coupled.wing.disp")))):
            real_failed = "non-finite converged state"
        if real_failed is not None:
            # a statically divergent wing (dynamic pressure above the divergence speed of the random structure) is not an
            # admissible input: the fixed-point iteration of the real code blows up, and so must the model's
            g0 = lambda nm: np.array(prob.get_val(nm))
            try:
                fl0 = np.concatenate([[flow["alpha"], flow["beta"], flow["v"], flow["rho"], s["fem_origin"]], g0("wing.mesh").ravel(),
                                      g0("wing.nodes").ravel(), g0("wing.local_stiff_transformed").ravel()])
                out0 = core.model_value("AeroStructCoupled", [nx, ny, int(sym), int(pipelines.left_flag(g0("wing.mesh")))], fl0)
                model_diverged = (not np.all(np.isfinite(out0))) or int(out0[-1]) >= 200 or float(np.max(np.abs(out0[:6 * ny]))) > 1e3
            except Exception:
                model_diverged = True
            if model_diverged:
                stats.discarded = getattr(stats, "discarded", 0) + 1
            else:
                stats.disagreements.append(dict(kind="real-code-exception", component="AerostructPoint", detail=real_failed,
                                                seed_keys=["aerostruct_pipeline", k]))
                stats.count(label, case_hash("as-exc", k), False)
            continue
        g = lambda nm: np.array(prob.get_val(nm))
        m0 = g("wing.mesh"); nodes = g("wing.nodes"); kloc = g("wing.local_stiff_transformed")
        disp = g("AS_point_0.coupled.wing.disp"); secf = g("AS_point_0.coupled.aero_states.wing_sec_forces").reshape(-1, 3)
        loads = g("AS_point_0.coupled.wing.loads")
        fl = np.concatenate([[flow["alpha"], flow["beta"], flow["v"], flow["rho"], s["fem_origin"]], m0.ravel(), nodes.ravel(), kloc.ravel()])
        out = core.model_value("AeroStructCoupled", [nx, ny, int(sym), int(pipelines.left_flag(m0))], fl)
        N = (nx - 1) * (ny - 1)
        mdisp = out[:6 * ny].reshape(ny, 6); mf = out[6 * ny:6 * ny + 3 * N].reshape(N, 3)
        ml = out[6 * ny + 3 * N:6 * ny + 3 * N + 6 * ny].reshape(ny, 6); its = int(out[-1])
        span = float(np.max(np.abs(m0[..., 1])) - np.min(np.abs(m0[..., 1])))
        if its >= 200 or float(np.max(np.abs(disp))) > 0.3 * span:
            # next to static divergence (deflections of the order of the span, hundreds of iterations): outside the range
            # in which the two fixed-point iterations can be compared at 1e-6; not an admissible analysis either
            stats.discarded = getattr(stats, "discarded", 0) + 1
            continue
        for what, a, b in (("disp", disp, mdisp), ("sec_forces", secf, mf), ("loads", loads, ml)):
            ok, msg = close_vec(a, b, rtol=1e-6)
            if not ok:
                stats.disagreements.append(dict(kind="pipeline-value", component="AerostructPoint.coupled:" + what, size=[nx, ny],
                                                detail=msg + " (model iterations %d)" % its, seed_keys=["aerostruct_pipeline", k]))
        stats.count(label, case_hash("as", k, flow["alpha"], mesh), bool(np.max(np.abs(disp)) > 1e-9),
                    ("sym=%s" % sym, "iterations=%d" % its, "tip_deflection>1cm=%s" % (np.max(np.abs(disp[:, 2])) > 1e-2)))
        if k == 0:
            stats.sample(dict(suite=label, shape=[nx, ny], symmetry=sym, alpha=flow["alpha"], max_disp=float(np.max(np.abs(disp))),
                              model_iterations=its))
    return stats


# ----------------------------------------------------------------------------------------
# end-to-end: real AssembleKGroup + SpatialBeamStates vs the model's SpatialBeam pipeline
# ----------------------------------------------------------------------------------------
def beam_case(rng, tier):
    from . import pipelines
    ny = int(rng.choice([2, 3, 4, 5, 7])) if tier == "quick" else int(rng.choice([2, 3, 4, 5, 7, 9, 13]))
    sym = bool(rng.integers(2))
    if not sym and ny % 2 == 0:
        ny += 1
    mesh = gen.rand_mesh(rng, 2, ny, sym)
    s = pipelines.struct_surface("wing", mesh, sym, fem_origin=float(rng.uniform(0.2, 0.6)))
    w = s["fem_origin"]
    nodes = (1 - w) * mesh[0] + w * mesh[-1]
    if rng.uniform() < 0.3:
        # cranked, highly swept spar (elements up to ~72 deg of sweep, i.e. close to the reference axis of the element triad)
        yy = np.abs(nodes[:, 1]); crank = float(rng.uniform(0.2, 0.7)) * max(float(yy.max()), 1e-9)
        t1 = np.tan(np.radians(rng.uniform(55, 72))); t2 = np.tan(np.radians(rng.uniform(0, 30)))
        nodes = nodes.copy(); nodes[:, 0] += np.where(yy < crank, t1 * yy, t1 * crank + t2 * (yy - crank))
    ne = ny - 1
    sec = dict(A=rng.uniform(2e-3, 5e-2, size=ne), Iy=rng.uniform(1e-5, 5e-4, size=ne), Iz=rng.uniform(1e-5, 5e-4, size=ne),
               J=rng.uniform(2e-5, 1e-3, size=ne))
    loads = rng.normal(size=(ny, 6)) * 1e3
    if rng.uniform() < 0.3:
        loads[:, 1] *= 500.0                                  # large spanwise loads ...
        loads[:, [0, 2]] *= 10.0 ** rng.uniform(-5, -3)       # ... next to small transverse ones (still >> 1e-6 N)
    loads[np.abs(loads) < 1e-4] = 1.0
    return s, nodes, sec, loads


def model_beam(s, nodes, sec, loads):
    ny = nodes.shape[0]
    fl = np.concatenate([[s["E"], s["G"]], nodes.ravel(), sec["A"], sec["Iy"], sec["Iz"], sec["J"], loads.ravel()])
    return core.model_value("SpatialBeam", [ny, int(s["symmetry"])], fl).reshape(ny, 6)


def beam_pipeline_suite(stats, tier=None, n=None, label="pipeline:SpatialBeam"):
    from . import pipelines
    tier = tier or core.TIER
    n = n if n is not None else (8 if tier == "quick" else 60)
    for k in range(n):
        rng = core.rng_for("beam_pipeline", k)
        s, nodes, sec, loads = beam_case(rng, tier)
        try:
            prob = pipelines.run_beam(s, nodes, sec, loads)
            real = np.array(prob.get_val("disp"))
        except Exception as e:
            stats.disagreements.append(dict(kind="real-code-exception", component="SpatialBeam", size=[nodes.shape[0]],
                                            detail="%s: %s" % (type(e).__name__, str(e)[:300]), seed_keys=["beam_pipeline", k]))
            continue
        mod = model_beam(s, nodes, sec, loads)
        # the 1e9 constraint makes K ill-conditioned by construction; compare relative to the largest displacement
        ok, msg = close_vec(real, mod, rtol=1e-6)
        if not ok:
            stats.disagreements.append(dict(kind="pipeline-value", component="SpatialBeam:disp", size=[nodes.shape[0], s["symmetry"]],
                                            detail=msg, seed_keys=["beam_pipeline", k]))
        stats.count(label, case_hash("beam", k, nodes), bool(np.any(np.abs(real) > 0)), ("ny=%d" % nodes.shape[0], "symmetry=%s" % s["symmetry"]))
        if k == 0:
            stats.sample(dict(suite=label, ny=int(nodes.shape[0]), symmetry=s["symmetry"], max_disp=float(np.max(np.abs(real)))))
    return stats


# ----------------------------------------------------------------------------------------
# plain functions of geometry/utils.py vs the model (C14)
# ----------------------------------------------------------------------------------------
def meshgen_suite(stats, tier=None, label="function:meshgen"):
    from openaerostruct.geometry.utils import generate_mesh, getFullMesh, add_chordwise_panels
    tier = tier or core.TIER
    grid = [(2, 3), (2, 5), (3, 7), (5, 9), (4, 11)] if tier == "quick" else [(nx, ny) for nx in (2, 3, 4, 6, 9) for ny in (3, 5, 7, 11, 21)]
    k = 0
    for (nx, ny) in grid:
        for sym in (True, False):
            for rep in range(2 if tier == "quick" else 3):
                rng = core.rng_for("meshgen", nx, ny, sym, rep); k += 1
                span = float(rng.uniform(2, 40)); chord = float(rng.uniform(0.3, 5)); s = float(rng.choice([0.0, 1.0, rng.uniform(0, 1)]))
                if rep == 1:
                    # whole-number dimensions given as Python ints, as in `{"span": 10, "root_chord": 1}`
                    span = int(rng.integers(2, 40)); chord = int(rng.integers(1, 6))
                cs = float(rng.choice([0.0, 1.0, rng.uniform(0, 1)])); off = rng.normal(size=3) * 3 * float(rng.integers(2))
                def add(what, real, op, ints, floats, exact=False):
                    mod = core.model_value(op, ints, floats)
                    ok, msg = close_vec(np.asarray(real).ravel(), mod, rtol=0.0 if exact else 1e-13, atol=0.0 if exact else 1e-15 * max(span, chord))
                    if not ok:
                        stats.disagreements.append(dict(kind="function-value", component=what, size=(nx, ny, sym), detail=msg,
                                                        seed_keys=["meshgen", nx, ny, sym, rep]))
                    stats.count(label + ":" + what, case_hash(what, ints, np.asarray(floats, dtype=float)), True, ("num_x=%d" % nx, "num_y=%d" % ny))
                try:
                    mesh = np.array(generate_mesh(dict(num_x=nx, num_y=ny, wing_type="rect", symmetry=sym, span=span, root_chord=chord,
                                                       span_cos_spacing=s, chord_cos_spacing=cs, offset=off)), dtype=float)
                except Exception as e:
                    stats.disagreements.append(dict(kind="real-code-exception", component="generate_mesh", size=(nx, ny, sym),
                                                    detail="%s: %s" % (type(e).__name__, str(e)[:200]), seed_keys=["meshgen", nx, ny, sym, rep]))
                    continue
                add("generate_mesh(rect)", mesh, "GenRectMesh", [nx, ny, int(sym)], [span, chord, s, cs] + list(off))
                half = mesh if sym else mesh[:, : (ny + 1) // 2]
                hny = half.shape[1]
                add("getFullMesh(left)", getFullMesh(left_mesh=half), "GetFullMesh", [nx, hny, 1], half.ravel(), exact=True)
                right = half[:, ::-1].copy(); right[:, :, 1] *= -1
                add("getFullMesh(right)", getFullMesh(right_mesh=right), "GetFullMesh", [nx, hny, 0], right.ravel(), exact=True)
                numx = int(rng.integers(2, 8))
                add("add_chordwise_panels", add_chordwise_panels(half, numx, cs), "AddChordwisePanels", [nx, hny, numx],
                    np.concatenate([[cs], half.ravel()]))
                # unify_mesh: 1-4 sections, C0-continuous (cut from one mesh) or with gaps (jittered), with and without shift
                from openaerostruct.geometry.geometry_unification import unify_mesh
                nsec = int(rng.integers(1, 5))
                full = np.array(generate_mesh(dict(num_x=nx, num_y=2 * nsec * 2 + 1, wing_type="rect", symmetry=False, span=span,
                                                   root_chord=chord)), dtype=float)
                full[:, :, 0] += 0.05 * full[:, :, 1]                      # a little sweep so that the leading edges differ
                cuts = [0] + sorted(set(int(c) for c in rng.choice(np.arange(1, full.shape[1] - 1), size=nsec - 1, replace=False))) + [full.shape[1] - 1]
                secs = [full[:, a:b + 1].copy() for a, b in zip(cuts[:-1], cuts[1:])]
                continuous = bool(rng.integers(2))
                if not continuous:
                    for sm in secs[1:]:
                        sm += rng.normal(size=3) * 0.1                    # detached sections: the shift option matters
                shift = bool(rng.integers(2))
                real_u = unify_mesh([dict(mesh=sm.copy()) for sm in secs], shift_uni_mesh=shift)
                add("unify_mesh", real_u, "UnifyMesh", [nx, int(shift), len(secs)] + [sm.shape[1] for sm in secs],
                    np.concatenate([sm.ravel() for sm in secs]), exact=not shift)
                if k == 1:
                    stats.sample(dict(suite=label, num_x=nx, num_y=ny, symmetry=sym, span=span, chord=chord, span_cos_spacing=s, chord_cos_spacing=cs))
    # the multi-section generator (geometry_mesh_gen.generate_mesh): symmetric and full-span, 1-5 sections on either side of the root
    from openaerostruct.geometry.geometry_mesh_gen import generate_mesh as gen_sections
    for k in range(16 if tier == "quick" else 80):
        rng = core.rng_for("sections", k)
        n = int(rng.integers(1, 6)); nxs = int(rng.integers(2, 5))
        nys = [int(rng.integers(2, 6)) for _ in range(n)]
        taper = [float(rng.choice([1.0, rng.uniform(0.4, 1.2)])) for _ in range(n)]
        span = [float(rng.uniform(0.3, 4)) for _ in range(n)]; sweep = [float(rng.uniform(-0.3, 0.6)) for _ in range(n)]
        sym = bool(rng.integers(2)) or n == 1
        root = n - 1 if sym else int(rng.integers(0, n))
        surface = dict(name="s", num_sections=n, sec_name=["s%d" % i for i in range(n)], symmetry=sym, taper=taper, span=span, sweep=sweep,
                       root_chord=float(rng.uniform(0.5, 3)), meshes="gen-meshes", nx=nxs, ny=nys, root_section=root)
        ints = [nxs, int(sym), root, n] + nys
        fl = np.array([surface["root_chord"]] + [v for t3 in zip(taper, span, sweep) for v in t3])
        try:
            with quiet():
                mesh, secs = gen_sections(surface)
            real = np.concatenate([np.asarray(m, dtype=float).ravel() for m in secs])
            mod = core.model_value("SectionGeometry", ints, fl)
            ok, msg = close_vec(real, mod, rtol=1e-12, atol=1e-13)
            if not ok:
                stats.disagreements.append(dict(kind="function-value", component="generate_section_geometry", size=(nxs, tuple(nys), sym),
                                                detail=msg, seed_keys=["sections", k]))
        except DriverError:
            raise
        except Exception as e:
            stats.disagreements.append(dict(kind="real-code-exception", component="generate_section_geometry", size=(nxs, tuple(nys), sym),
                                            detail="%s: %s" % (type(e).__name__, str(e)[:200]), seed_keys=["sections", k]))
        stats.count(label + ":generate_section_geometry", case_hash("sections", ints, fl), True, ("sections=%d" % n, "symmetry=%s" % sym))
    return stats


# ----------------------------------------------------------------------------------------
# malformed stream (C20): error kinds of the real set-up code vs the model's decision logic (exact)
# ----------------------------------------------------------------------------------------
def _outcome(fn):
    import warnings as _w
    try:
        with quiet(), _w.catch_warnings():
            _w.simplefilter("ignore")
            fn()
        return 0
    except ValueError:
        return 1
    except NameError:
        return 2
    except Exception as e:          # any other exception kind is reported as such
        return "%s" % type(e).__name__


def validation_suite(stats, tier=None, label="malformed:validate"):
    from openaerostruct.geometry.utils import generate_mesh
    from openaerostruct.structures.struct_groups import SpatialBeamAlone
    from openaerostruct.integration.aerostruct_groups import AerostructGeometry
    from openaerostruct.geometry.geometry_group import build_sections
    from . import pipelines
    import openmdao.api as om
    tier = tier or core.TIER
    n = 40 if tier == "quick" else 300
    for k in range(n):
        rng = core.rng_for("validate", k)
        kind = int(rng.integers(4))
        if kind == 0:
            num_y = int(rng.integers(2, 12)); wt = str(rng.choice(["rect", "CRM", "CRM:jig", "CRM:alpha_2.75", "delta", "Rect", "crm", ""]))
            ints = [0, num_y, int(wt == "rect"), int("CRM" in wt)]
            real = _outcome(lambda: generate_mesh(dict(num_x=2, num_y=num_y, wing_type=wt, symmetry=bool(rng.integers(2)))))
            desc = dict(check="generate_mesh", num_y=num_y, wing_type=wt)
        elif kind == 1:
            ground = bool(rng.integers(2)); sym = bool(rng.integers(2))
            ny = 3
            mesh = gen.rand_mesh(rng, 2, ny, sym)
            s = pipelines.aero_surface("w", mesh, sym)
            if ground:
                s["groundplane"] = True
            ints = [1, int(ground), int(sym)]
            real = _outcome(lambda: pipelines.run_aero_point([s], dict(alpha=3.0, v=50.0, rho=1.0, cg=np.zeros(3), height_agl=10.0)))
            desc = dict(check="ground effect", groundplane=ground, symmetry=sym)
        elif kind == 2:
            fem = str(rng.choice(["tube", "wingbox", "wingbox", "box", "Tube", ""]))
            skin, spar = bool(rng.integers(2)), bool(rng.integers(2))
            mesh = gen.rand_mesh(rng, 2, 3, True, planar=True, jitter=0.0)
            s = pipelines.struct_surface("w", mesh, True, fem=fem)
            if fem == "wingbox":
                s.update(data_x_upper=np.linspace(0.1, 0.6, 6), data_x_lower=np.linspace(0.1, 0.6, 6),
                         data_y_upper=np.array([0.05, 0.06, 0.065, 0.065, 0.06, 0.05]), data_y_lower=-np.array([0.05, 0.06, 0.065, 0.065, 0.06, 0.05]),
                         original_wingbox_airfoil_t_over_c=0.12, strength_factor_for_upper_skin=1.0, t_over_c_cp=np.array([0.12]))
                s.pop("thickness_cp", None)
            if skin:
                s["skin_thickness_cp"] = np.array([0.005, 0.01])
            if spar:
                s["spar_thickness_cp"] = np.array([0.004, 0.008])
            which = int(rng.integers(2))
            ints = [2, {"tube": 0, "wingbox": 1}.get(fem, 7), int(skin), int(spar)]
            def build():
                p = om.Problem(reports=False)
                p.model.add_subsystem("w", SpatialBeamAlone(surface=s) if which == 0 else AerostructGeometry(surface=s))
                p.setup()
            real = _outcome(build)
            desc = dict(check="structural model", group=["SpatialBeamAlone", "AerostructGeometry"][which], fem_model_type=fem, skin=skin, spar=spar)
        else:
            num = int(rng.integers(2, 4)); genm = bool(rng.integers(2))
            lens = [num] * 6
            if rng.uniform() < 0.6:
                lens[int(rng.integers(6))] += int(rng.choice([-1, 1]))
            lny, lt, ls, lsw, lm, ln = lens
            surface = dict(name="surface", num_sections=num, sec_name=["s%d" % i for i in range(ln)], symmetry=True,
                           taper=[1.0] * lt, span=[1.0] * ls, sweep=[0.0] * lsw, root_chord=1.0, nx=2, ny=[3] * lny,
                           meshes="gen-meshes" if genm else [gen.rand_mesh(rng, 2, 3, True) for _ in range(lm)])
            ints = [3, num, int(genm), lny, lt, ls, lsw, lm, ln]
            real = _outcome(lambda: build_sections(surface))
            desc = dict(check="multi-section lists", num_sections=num, gen_meshes=genm, lengths=lens)
        mod = int(round(float(core.model_value("Validate", ints, [])[0])))
        if real != mod:
            stats.disagreements.append(dict(kind="error-kind", component="validate", size=ints, detail="real %s vs model %s for %s" % (real, mod, desc),
                                            seed_keys=["validate", k]))
        stats.count(label, case_hash("validate", ints), True, ("check=%s" % desc["check"], "outcome=%s" % real))
        if k < 4:
            stats.sample(dict(suite=label, **desc, outcome=real))
    return stats


# ----------------------------------------------------------------------------------------
# implicit components: residual of apply_nonlinear and the partials of linearize (SolveMatrix, FEM)
# ----------------------------------------------------------------------------------------
def _implicit_partials(comp, of, wrts, sizes):
    """dense d(residual of)/d(wrt) from the sub-Jacobians the component filled in linearize (declared rows/cols honoured)"""
    blocks = []
    absname = lambda n: comp.pathname + "." + n
    for w in wrts:
        info = comp._subjacs_info.get((absname(of), absname(w)))
        D = np.zeros((sizes[of], sizes[w]))
        if info is not None:
            val = info["val"]
            if info.get("rows") is not None:
                np.add.at(D, (np.asarray(info["rows"]), np.asarray(info["cols"])), np.asarray(val, dtype=float).ravel())
            elif val is not None:
                v = val.toarray() if hasattr(val, "toarray") else np.asarray(val, dtype=float)
                D += v.reshape(D.shape)
        blocks.append(D)
    return np.hstack(blocks)


def implicit_cases(rng, name, nx, ny, sym):
    from collections import OrderedDict
    from .specs import _vlm_surfs, _surf
    if name == "SolveMatrix":
        from openaerostruct.aerodynamics.solve_matrix import SolveMatrix
        ss = _vlm_surfs(rng, nx, ny, sym, ns=int(rng.integers(1, 3)))
        N = sum((s["mesh"].shape[0] - 1) * (s["mesh"].shape[1] - 1) for s in ss)
        A = rng.normal(size=(N, N)) + 3.0 * np.eye(N)
        return dict(factory=lambda: SolveMatrix(surfaces=ss), state="circulations", op="SolveResidual", ints=[N],
                    inputs=OrderedDict(mtx=A, rhs=rng.normal(size=N) * 10), state_val=rng.normal(size=N) * 5)
    if name == "FEM":
        from openaerostruct.structures.fem import FEM
        s = _surf(rng, nx, ny, sym)
        ne = ny - 1
        kl = rng.normal(size=(ne, 12, 12)) * 1e5
        kl = kl + np.transpose(kl, (0, 2, 1)) + 1e6 * np.eye(12)[None]
        return dict(factory=lambda: FEM(surface=s), state="disp_aug", op="FEMResidual", ints=[ny, int(sym)],
                    inputs=OrderedDict(local_stiff_transformed=kl, forces=rng.normal(size=6 * ny + 6) * 1e3),
                    state_val=rng.normal(size=6 * ny + 6) * 1e-2)
    raise KeyError(name)


def implicit_suite(stats, tier=None, names=("SolveMatrix", "FEM"), label="implicit"):
    """residual R(inputs, state) at a state that is *not* the solution, and dR/d(inputs, state) as filled by linearize,
    against the model residual and its dual-number derivative"""
    tier = tier or core.TIER
    for name in names:
        for (nx, ny) in gen.sizes(tier):
            for sym in (True, False):
                rng = core.rng_for("implicit", name, nx, ny, sym)
                keys = ["implicit", name, nx, ny, sym]
                try:
                    c = implicit_cases(rng, name, nx, ny, sym)
                    prob = comp_problem(c["factory"](), c["inputs"])
                    comp = prob.model.c
                    st = c["state"]
                    with quiet():
                        prob.set_val(st, c["state_val"])
                        prob.model.run_apply_nonlinear()
                        res = np.array(comp._residuals[st], dtype=float).ravel()
                        prob.model.run_linearize()
                    wrts = list(c["inputs"]) + [st]
                    sizes = {k: np.asarray(v).size for k, v in c["inputs"].items()}
                    sizes[st] = res.size
                    rJ = _implicit_partials(comp, st, wrts, sizes)
                    floats = np.concatenate([flat_cat(c["inputs"], list(c["inputs"])), np.asarray(c["state_val"], dtype=float).ravel()])
                    mval, mJ = core.model_jacobian(c["op"], c["ints"], floats, list(range(floats.size)))
                    dis = []
                    ok, msg = close_vec(res, mval, rtol=1e-9)
                    if not ok:
                        dis.append(dict(kind="value", component=name, size=(nx, ny, sym), detail="residual: " + msg))
                    ok, msg = close_jac(rJ, mJ, rtol=1e-7, fvals=res, xvals=floats)
                    if not ok:
                        dis.append(dict(kind="jacobian", component=name, size=(nx, ny, sym), detail="linearize: " + msg))
                    if name == "FEM":
                        # the sparse coordinate list itself: k_rows, k_cols (exact) and k_data against the transliterated list
                        kl = np.asarray(c["inputs"]["local_stiff_transformed"], dtype=float).ravel()
                        mp = core.model_value("FEMPattern", c["ints"], kl)
                        decl = np.concatenate([np.asarray(comp.k_rows, dtype=float), np.asarray(comp.k_cols, dtype=float),
                                               np.asarray(comp.k_data, dtype=float)])
                        n3 = len(comp.k_rows)
                        if decl.shape != mp.shape or not np.array_equal(decl[:2 * n3], mp[:2 * n3]):
                            dis.append(dict(kind="pattern", component=name, size=(nx, ny, sym),
                                            detail="k_rows / k_cols differ from the transliterated coordinate list (%d vs %d entries)" % (decl.size // 3, mp.size // 3)))
                        else:
                            ok, msg = close_vec(decl[2 * n3:], mp[2 * n3:], rtol=1e-14)
                            if not ok:
                                dis.append(dict(kind="pattern", component=name, size=(nx, ny, sym), detail="k_data: " + msg))
                    h = case_hash(name, c["ints"], floats); nontrivial = bool(np.any(res != 0))
                except DriverError as e:
                    if "timed out" in str(e) or "not built" in str(e):
                        raise
                    dis = [dict(kind="driver-error", component=name, size=(nx, ny, sym), detail=str(e))]; h = case_hash(name, nx, ny, sym); nontrivial = False
                except Exception as e:
                    dis = [dict(kind="real-code-exception", component=name, size=(nx, ny, sym), detail="%s: %s" % (type(e).__name__, str(e)[:300]))]
                    h = case_hash(name, nx, ny, sym); nontrivial = False
                stats.count("%s:%s" % (label, name), h, nontrivial, ("size=%dx%d" % (nx, ny), "symmetry=%s" % sym))
                for d in dis:
                    d["seed_keys"] = keys
                    stats.disagreements.append(d)
    return stats
